(* RootQR.v — replay of a whole recorded run of harness/c01_root.c (every pusher, pool worker and monitor poke) as a run of
   the GLOBAL model Model/RootQ.v, with Base/Replay.v:
   1. `abstract`: one thread's recorded event sequence -> its model actions: every recorded event, plus the hidden steps of
      RootQ.tstep (the plain reads of dq_items_tail / head->do_next / dsema_value, pthread_create) placed right after the
      thread's previous event, with the next recorded event as look-ahead;
   2. `replay`: Replay.sched on RootQ.gstep from init_state: an action is taken only if RootQ.gstep accepts it in the current
      global state (the values the library observed are the model's values, the model's ghost bookkeeping enables it);
   3. `inv_code`: the boolean version of the invariants Inv1 / InvC / Inv4 (RootQR_proofs.inv_code_reach: 0 on every
      reachable state), evaluated on the state the replay ends in. *)
From Coq Require Import ZArith Bool List.
From Verif Require Import Word Conc Replay Gen_consts Gen_fields Gen_rootq RootQ.
Import ListNotations.
Local Open Scope Z_scope.

Definition H_TAIL := 1.
Definition H_NEXT := 2.
Definition H_SVAL := 3.
Definition H_CREATE := 4.

Definition rq_hidden (s : gst) (t code arg : Z) : option event :=
  if code =? H_TAIL then Some (ev_pl_tail (tail s))
  else if code =? H_NEXT then match pcs s t with PDrainNext h => Some (ev_pl_next h (nxt s h)) | _ => None end
  else if code =? H_SVAL then Some (ev_pl_sval (sval s))
  else if code =? H_CREATE then Some (ev_create arg)
  else None.
Definition rq_accepts (oc : bool) (s : gst) (t : Z) (e : event) : bool :=
  match tstep oc (pcs s t) e with Some _ => true | None => false end.
Definition rq_valid (t : Z) : bool := true.

Definition hid_of (p : pc) : Z :=
  match p with PDrainTail => H_TAIL | PDrainNext _ => H_NEXT | PSemLoad => H_SVAL | PCreate _ _ => H_CREATE | _ => 0 end.
Definition null_ev := mkEv 0 0 0 0 0 0 0 0.

(* tr: (key, event, (word, label of the write)) with key = 2 * stamp; cr: the threads this thread's pthread_create calls start, in order.
   Result: (key, action) in program order; stops at the first event RootQ.tstep_vis rejects *)
Fixpoint abstract (oc : bool) (t : Z) (p : pc) (cr : list Z) (prevk : Z) (i : Z) (tr : list (Z * event * (Z * Z)))
    (acc : list (Z * ract)) : list (Z * ract) :=
  match tr with
  | [] =>
      match p, cr with
      | PCreate _ _, u :: _ =>
          rev ((prevk + 1, {| r_tid := t; r_code := H_CREATE; r_arg := u; r_ev := null_ev; r_look := false; r_next := null_ev; r_id := i; r_obs := false;
                            r_word := 0; r_widx := 0 |}) :: acc)
      | _, _ => rev acc
      end
  | (k, e, (wd, wi)) :: r =>
      match tstep_vis oc p e with
      | None => rev acc
      | Some p' =>
          let h := hid_of p in
          let ev := {| r_tid := t; r_code := 0; r_arg := 0; r_ev := e; r_look := false; r_next := null_ev; r_id := i; r_obs := ev_obs e;
                     r_word := wd; r_widx := wi |} in
          if h =? 0 then abstract oc t p' cr k (i + 1) r ((k, ev) :: acc)
          else
            let hid := {| r_tid := t; r_code := h; r_arg := if h =? H_CREATE then hd (-1) cr else 0; r_ev := null_ev;
                          r_look := true; r_next := e; r_id := i; r_obs := negb (h =? H_CREATE); r_word := 0; r_widx := 0 |} in
            abstract oc t p' (if h =? H_CREATE then tl cr else cr) k (i + 1) r ((k, ev) :: (prevk + 1, hid) :: acc)
      end
  end.
Definition start_pc (kind : Z) : pc := if kind =? 1 then PWStart else PNone.

(* ------------------------------------------------------------------ boolean invariants *)
Fixpoint nodupb (l : list Z) : bool := match l with [] => true | x :: r => negb (memz x r) && nodupb r end.
Fixpoint list_eqb (a b : list Z) : bool :=
  match a, b with [] , [] => true | x :: a', y :: b' => (x =? y) && list_eqb a' b' | _, _ => false end.
Definition opt_is (o : option Z) (t : Z) : bool := match o with Some u => u =? t | None => false end.
Definition holder_pcb (p : pc) : bool :=
  match p with
  | PDrainNext _ | PDrainStoreNull _ | PDrainCasTail _ | PDrainWaitNext _ _ | PDrainStoreHead _ _ => true
  | _ => false
  end.
Fixpoint adjacentb (a b : Z) (l : list Z) : bool :=
  match l with
  | x :: ((y :: _) as r) => ((x =? a) && (y =? b)) || adjacentb a b r
  | _ => false
  end.
Definition linker_at (s : gst) (a b : Z) : bool :=
  existsb (fun t => match pcs s t with PPushLink _ x prev => (x =? b) && (prev =? a) | _ => false end) (seen s).
Fixpoint linkedb (s : gst) (l : list Z) : bool :=
  match l with
  | x :: ((y :: _) as r) => ((nxt s x =? y) || ((nxt s x =? 0) && linker_at s x y)) && linkedb s r
  | _ => true
  end.
Definition frontb (s : gst) : bool :=
  let h01 := (head s =? 0) || (head s =? MED) in
  match holder s, hstore s with
  | None, None => match chain s with [] => h01 | c :: _ => head s =? c end
  | Some w, None => holder_pcb (pcs s w) && negb (match chain s with [] => true | _ => false end) && h01
  | None, Some p =>
      match chain s with
      | [] => false
      | c :: _ => match pcs s p with PPushLink _ x prev => (x =? c) && (prev =? 0) | _ => false end && h01
      end
  | Some _, Some _ => false
  end.
Definition tinvb (s : gst) (t : Z) : bool :=
  match pcs s t with
  | PPushXchg _ x => opt_is (owner s x) t && negb (memz x (chain s)) && is_item x && (nxt s x =? 0)
  | PPushLink _ x prev =>
      opt_is (owner s x) t && (if prev =? 0 then opt_is (hstore s) t else adjacentb prev x (chain s) && (nxt s prev =? 0))
  | PDrainNext h | PDrainStoreNull h | PDrainCasTail h => opt_is (holder s) t && (hd 0 (chain s) =? h)
  | PDrainWaitNext h _ => opt_is (holder s) t && match chain s with c :: _ :: _ => c =? h | _ => false end
  | PDrainStoreHead h nx =>
      opt_is (holder s) t && match chain s with c :: b :: _ => (c =? h) && (b =? nx) | _ => false end && (nxt s h =? nx)
  | _ => true
  end.
Definition pc_wfb (p : pc) : bool :=
  match p with
  | PPokeProbe _ n f => (n =? 1) && floor_ok f
  | PSigInc _ rem f | PSigPost _ rem f | PPendReq _ rem f | PPoolLoad _ rem f => (rem =? 1) && floor_ok f
  | PPoolLoop _ rem f tc => (rem =? 1) && floor_ok f && (- FLOOR_B <=? tc) && (tc <=? RQ_MAX_PTHREAD_COUNT)
  | PCreate _ rem => rem =? 1
  | _ => true
  end.

(* the clauses, in the order of the bits of inv_code *)
Definition inv_clauses (s : gst) : list bool :=
  [ nodupb (chain s);                                                            (* 1 *)
    forallb is_item (chain s);                                                   (* 2 *)
    tail s =? last (chain s) 0;                                                  (* 4 *)
    match chain s with [] => true | _ => nxt s (last (chain s) 0) =? 0 end;      (* 8 *)
    linkedb s (chain s);                                                         (* 16 *)
    frontb s;                                                                    (* 32 *)
    list_eqb (map fst (hpush s)) (map fst (hpop s) ++ unclaimed s);              (* 64 *)
    forallb (tinvb s) (seen s);                                                  (* 128 *)
    nodupb (seen s);                                                             (* 256 *)
    forallb (fun t => pc_wfb (pcs s t)) (seen s);                                (* 512 *)
    (0 <=? ksem s) && (RQ_LONG_MIN <=? sval s) && (sval s <=? RQ_LONG_MAX);      (* 1024 *)
    cnt is_slow s =? Z.max 0 (- sval s) + cnt is_sigpost s + ksem s;             (* 2048 *)
    (pend s =? cnt w_pend s) && (pend s <=? RQ_INT_MAX);                         (* 4096 *)
    (pool0 s - pool s =? cnt w_pool s) && (- FLOOR_B <=? pool s);                (* 8192 *)
    match unclaimed s with                                                       (* 16384 *)
    | [] => true
    | _ => existsb (fun t => tok (pcs s t)) (seen s) || (1 <=? surplus s)
    end ].
Fixpoint bits (l : list bool) (w : Z) : Z :=
  match l with [] => 0 | b :: r => (if b then 0 else w) + bits r (2 * w) end.
(* 0 iff every clause holds; otherwise the sum of the weights of the failing clauses *)
Definition inv_code (s : gst) : Z := bits (inv_clauses s) 1.

(* ------------------------------------------------------------------ the replay *)
(* one action on a state: what the scheduler does (used by the untrusted order search of the driver) *)
Definition rq_try (oc : bool) (s : gst) (a : ract) : option gst := try_act (gstep oc) rq_hidden (rq_accepts oc) rq_valid s a.

(* the next action (thread, event index, hidden kind) of the first n distinct threads of what is left: diagnostics *)
Fixpoint firsts (l : list ract) (seenl : list Z) (n : nat) : list Z :=
  match l, n with
  | [], _ | _, O => []
  | a :: r, S n' => if existsb (Z.eqb (r_tid a)) seenl then firsts r seenl n else r_tid a :: r_id a :: r_code a :: firsts r (r_tid a :: seenl) n'
  end.
(* w = 1: strict mode, the given order is executed as it is (the driver found it); otherwise the scheduler may look ahead *)
Definition depths (w n : nat) : list nat := match w with 1%nat => [1%nat] | _ => [12%nat; 48%nat; 192%nat; 768%nat; n] end.
Definition replay (oc : bool) (p0 : Z) (w : nat) (chains : list (Z * list Z)) (ord : list ract) : list Z :=
  let '(s, done, rest) := sched (gstep oc) rq_hidden (rq_accepts oc) rq_valid (S (length ord)) w (depths w (length ord)) chains (init_state p0) ord 0 in
  [ done; Z.of_nat (length rest);
    match rest with a :: _ => r_tid a | [] => -1 end; match rest with a :: _ => r_id a | [] => -1 end;
    match rest with a :: _ => r_code a | [] => -1 end;
    head s; tail s; pend s; pool s; sval s; ksem s; Z.of_nat (length (chain s)); Z.of_nat (length (unclaimed s));
    Z.of_nat (length (hpush s)); Z.of_nat (length (hpop s)); Z.of_nat (length (runs s)); inv_code s ]
  ++ firsts rest [] 24.
