(* SrcLaneR.v — replay of a whole recorded round of harness/c15_srcdata.c (all threads: merges, suspends / resumes, cancel,
   the drain passes of the target queue's workers with lock / unlock / renew / finish, handler begin / end) as a run of
   the GLOBAL model Model/SrcLane.v, and a boolean version of its invariant evaluated on every state passed through.
   lib/props/c15_replay.py reads, for each thread, the SrcLane actions off its recorded operations together with what the
   recording says about each (untrusted), and proposes a global order (the recorder's stamps made consistent with the
   exact old -> new chains of dq_state and ds_pending_data).  `sched` executes them on SrcLane.begin / SrcLane.gstep: at
   each point the first thread, within a window of the preferred order, whose next action
     - finds the value the implementation observed (a load, the old value of a read-modify-write) in the model state,
     - is ENABLED in the model (begin / gstep return a state), and
     - produces the RECORDED outcome: the shape of the thread's next program point, the value of dq_state and of
       ds_pending_data after it (a step that is not declared to write a word must leave it unchanged), the latched value,
       the value reported to the handler
   is taken.  The scheduler never invents a model step and never skips one; the round is reproduced iff every action is
   consumed.  Definitions only (Proofs/SrcLaneR_proofs.v: every state passed through is reachable, inv_b holds on
   reachable states). *)
From Coq Require Import ZArith Bool List.
From Verif Require Import Word Conc Gen_consts Gen_dqstate Fields DqFields.
From Verif Require SLane SrcData.
From Verif Require Import SrcLane.
Import ListNotations.
Local Open Scope Z_scope.

Definition shape (p : pc) : Z :=
  match p with
  | Idle => 0 | POut => 1 | PM_flags _ _ => 2 | PM_op _ _ => 3 | PS_flags _ => 4 | PS_pend _ => 5 | PS_wake _ => 6
  | PS_rootpush => 7 | PC_set _ => 8 | PU_rmw => 9 | PR_rmw _ => 10 | PR_flags _ => 11 | PR_pend _ => 12 | PR_wake _ => 13
  | PW_lock _ => 14 | PW_susp _ => 15 | PW_flags _ => 16 | PW_pend _ => 17 | PW_latch _ => 18 | PW_call _ _ => 19
  | PW_incall _ => 20 | PW_post _ => 21 | PW_post2 _ => 22 | PW_unlock _ => 23 | PW_xor _ => 24 | PW_fin _ => 25
  | PA_rmw _ => 26 | PA_role _ => 27 | PW_inst _ => 28 | PA_inst _ => 29
  end.

(* one model action of a thread with what the recording says about it.
   m_kind: 0 AStep; 1 ABegin (CMerge a1 a2); 2 ABegin (CWorker a1); 3 ABegin CSuspend; 4 ABegin (CResume a1);
           5 ABegin (CCancel a1); 6 ABegin (CWake a1); 7 ABegin (CActivate a1).
   m_prew / m_prev: the value the implementation observed before the action: 0 nothing, 1 ds_pending_data = m_prev,
           2 dq_state = m_prev, 3 the cancel flag (m_prev <> 0).
   m_sh: shape of the thread's program point after the action.
   m_st / m_pend: the word after the action; -1: the action must not change it.
   m_chk / m_cv: 0 nothing; 1 the latched value is m_cv; 2 the value delivered to the handler is m_cv.
   m_sidx / m_pidx: position of the action in the exact old -> new chain of dq_state / ds_pending_data writes that the
           checker reconstructed (-1: none); a write is taken only when it is the next one of its chain (this only
           restricts the scheduler: values recur, e.g. ds_pending_data = 0 before every first merge after a latch). *)
Record mact := { m_kind : Z; m_a1 : Z; m_a2 : Z; m_prew : Z; m_prev : Z; m_sh : Z; m_st : Z; m_pend : Z; m_chk : Z; m_cv : Z;
                 m_sidx : Z; m_pidx : Z }.
Definition MA (k a1 a2 pw pv sh stv pe ck cv si pi : Z) : mact :=
  {| m_kind := k; m_a1 := a1; m_a2 := a2; m_prew := pw; m_prev := pv; m_sh := sh; m_st := stv; m_pend := pe; m_chk := ck; m_cv := cv;
     m_sidx := si; m_pidx := pi |}.

Record sact := { s_tid : Z; s_act : mact }.

Definition valid_b (t : Z) : bool := (0 <? t) && (t <? 1073741824).

Definition pre_ok (s : gst) (m : mact) : bool :=
  if m_prew m =? 0 then true
  else if m_prew m =? 1 then pend s =? m_prev m
  else if m_prew m =? 2 then st s =? m_prev m
  else Bool.eqb (cancelled s) (negb (m_prev m =? 0)).

Definition post_ok (s s' : gst) (t : Z) (m : mact) : bool :=
  (shape (pcs s' t) =? m_sh m) &&
  (if m_st m =? -1 then st s' =? st s else st s' =? m_st m) &&
  (if m_pend m =? -1 then pend s' =? pend s else pend s' =? m_pend m) &&
  (if m_chk m =? 1 then latched s' =? m_cv m
   else if m_chk m =? 2 then hd 0 (delivered s') =? m_cv m
   else true).

Definition call_of (m : mact) : option call :=
  if m_kind m =? 1 then Some (CMerge (m_a1 m) (m_a2 m))
  else if m_kind m =? 2 then Some (CWorker (m_a1 m))
  else if m_kind m =? 3 then Some CSuspend
  else if m_kind m =? 4 then Some (CResume (m_a1 m))
  else if m_kind m =? 5 then Some (CCancel (m_a1 m))
  else if m_kind m =? 6 then Some (CWake (m_a1 m))
  else if m_kind m =? 7 then Some (CActivate (m_a1 m))
  else None.

Definition eligible (ns np : Z) (m : mact) : bool :=
  ((m_sidx m =? -1) || (m_sidx m =? ns)) && ((m_pidx m =? -1) || (m_pidx m =? np)).

Definition try_act (c : cfg) (ns np : Z) (s : gst) (a : sact) : option gst :=
  let t := s_tid a in let m := s_act a in
  if valid_b t && eligible ns np m && pre_ok s m then
    match (if m_kind m =? 0 then gstep c s t else match call_of m with Some k => begin s t k | None => None end) with
    | Some s' => if post_ok s s' t m then Some s' else None
    | None => None
    end
  else None.

Fixpoint lookup (t : Z) (qs : list (Z * list sact)) : list sact :=
  match qs with [] => [] | (u, l) :: r => if u =? t then l else lookup t r end.
Fixpoint pop_q (t : Z) (qs : list (Z * list sact)) : list (Z * list sact) :=
  match qs with [] => [] | (u, l) :: r => if u =? t then (u, tl l) :: r else (u, l) :: pop_q t r end.
Fixpoint remove_first (t : Z) (l : list Z) : list Z :=
  match l with [] => [] | x :: r => if x =? t then r else x :: remove_first t r end.

(* an action that only observes shared state (a load that decides a branch): it changes nothing but the thread's own
   program point and ghost lists.  The recorder's stamp is taken after the operation, so a load can be stamped after the
   write that overwrote what it saw; an enabled observation is therefore taken before anything else (always a legal
   linearisation: the model holds the observed value now). *)
Definition is_obs (m : mact) : bool :=
  (m_kind m =? 0) && (m_st m =? -1) && (m_pend m =? -1) && negb (m_prew m =? 0) && (m_chk m =? 0).

(* among the first w distinct threads of the preferred order: the first whose next action is enabled with the recorded
   outcome (only_obs: only observations are considered) *)
Fixpoint pick (c : cfg) (ns np : Z) (only_obs : bool) (s : gst) (qs : list (Z * list sact)) (ord : list Z) (seen : list Z) (w d : nat) {struct ord}
    : option (Z * gst * mact) :=
  match w, d, ord with
  | O, _, _ | _, O, _ | _, _, [] => None
  | S w', S d', t :: r =>
      if existsb (Z.eqb t) seen then pick c ns np only_obs s qs r seen w d'
      else match lookup t qs with
           | a :: _ => match (if negb only_obs || is_obs (s_act a) then try_act c ns np s a else None) with
                       | Some s' => Some (t, s', s_act a)
                       | None => pick c ns np only_obs s qs r (t :: seen) w' d'
                       end
           | [] => pick c ns np only_obs s qs r (t :: seen) w' d'
           end
  end.
(* look a little ahead in the preferred order first (stamp inversions are local); only when nothing is enabled there, further *)
Fixpoint pick2 (c : cfg) (ns np : Z) (s : gst) (qs : list (Z * list sact)) (ord : list Z) (w : nat) (depths : list nat) : option (Z * gst * mact) :=
  match depths with
  | [] => None
  | d :: ds =>
      match pick c ns np true s qs ord [] w d with
      | Some r => Some r
      | None => match pick c ns np false s qs ord [] w d with Some r => Some r | None => pick2 c ns np s qs ord w ds end
      end
  end.

(* ------------------------------------------------------------------ the invariant, as a boolean *)
Definition locked_b (p : pc) : bool :=
  match p with
  | PW_inst _ | PW_susp _ | PW_flags _ | PW_pend _ | PW_latch _ | PW_call _ _ | PW_incall _ | PW_post _ | PW_post2 _
  | PW_unlock _ | PW_xor _ | PW_fin _ => true
  | _ => false
  end.
Definition token_b (p : pc) : bool := locked_b p || match p with PW_lock _ | PS_rootpush => true | _ => false end.
Definition waker_b (p : pc) : bool := match p with PS_flags _ | PS_pend _ | PS_wake _ => true | _ => false end.
Definition rwaker_b (p : pc) : bool := match p with PR_flags _ | PR_pend _ | PR_wake _ => true | _ => false end.
Definition examined_b (p : pc) : bool :=
  match p with PW_call _ _ | PW_incall _ | PW_post _ | PW_post2 _ | PW_unlock _ | PW_xor _ => true | _ => false end.
Definition OWNV := 18014398509481984 + 2199023255552 + 2147483648.
Definition owned_b (p : pc) : bool :=
  match p with
  | PW_inst o | PW_susp o | PW_flags o | PW_pend o | PW_latch o | PW_call o _ | PW_incall o | PW_post o | PW_post2 o
  | PW_unlock o | PW_xor o | PW_fin o => o =? OWNV
  | _ => true
  end.
Definition qos_b (p : pc) : bool :=
  match p with
  | PM_flags _ q | PM_op _ q | PS_flags q | PS_pend q | PS_wake q | PC_set q | PR_rmw q | PR_flags q | PR_pend q | PR_wake q
  | PA_rmw q | PA_role q | PA_inst q =>
      (0 <=? q) && (q <? 8)
  | _ => true
  end.
Definition callnz_b (p : pc) : bool := match p with PW_call _ x => negb (x =? 0) | _ => true end.
Definition mem (t : Z) (l : list Z) : bool := existsb (Z.eqb t) l.
Definition holder_is (s : gst) (t : Z) : bool := match token s with Some (Some w) => w =? t | _ => false end.

Definition thread_b (s : gst) (t : Z) : bool :=
  let p := pcs s t in
  Bool.eqb (token_b p) (holder_is s t) && Bool.eqb (waker_b p) (mem t (wakers s)) && Bool.eqb (rwaker_b p) (mem t (rwakers s)) &&
  owned_b p && qos_b p && callnz_b p.

Fixpoint nodup_b (l : list Z) : bool := match l with [] => true | x :: r => negb (mem x r) && nodup_b r end.
Definition nil_b (l : list Z) : bool := match l with [] => true | _ => false end.

Definition data_b (k : dkind) (pe la : Z) (me dr de : list Z) (ca : bool) : bool :=
  forallb (fun d => negb (d =? 0)) de && (ca || nil_b dr) &&
  match k with
  | SrcData.KindAdd => (SrcData.zsum de + la + pe) mod 18446744073709551616 =? SrcData.zsum me mod 18446744073709551616
  | SrcData.KindOr => Z.lor (SrcData.zlor de) (Z.lor la pe) =? SrcData.zlor me
  | SrcData.KindReplace =>
      forallb (fun d => mem d me) de && ((la =? 0) || mem la me) && ((pe =? 0) || mem pe me) &&
      ((pe =? hd 0 me) || ((pe =? 0) && ((la =? hd 0 me) || ((la =? 0) && (hd 0 de =? hd 0 me)))))
  end.

Definition hi_ok_b (h : Z) : bool := (h mod 8 =? 0) || (h mod 8 =? 1) || (h mod 8 =? 3).

Definition inv_b (c : cfg) (L : list Z) (s : gst) : bool :=
  let r := dec (st s) in
  (0 <=? st s) && (st s <? 18446744073709551616) &&
  (f_tr r =? 0) && (f_em r =? 0) && (f_pb r =? 0) && hi_ok_b (f_hi r) && (f_role r <? 2) &&
  Bool.eqb (f_enq r =? 1) (match token s with None => false | _ => true end) &&
  (rootq s =? match token s with Some None => 1 | _ => 0 end) &&
  (match token s with
   | Some (Some w) => valid_b w && mem w L &&
                      (if locked_b (pcs s w) then (f_owner r =? w) && (f_ib r =? 1) && (f_wq r =? 4096)
                       else (f_owner r =? 0) && (f_ib r =? 0) && (f_wq r =? 4095))
   | _ => (f_owner r =? 0) && (f_ib r =? 0) && (f_wq r =? 4095)
   end) &&
  ((pend s =? 0) || cancelled s ||
   (match token s with None => false | _ => true end) || negb (nil_b (wakers s)) || negb (nil_b (rwakers s)) || (0 <? f_hi r)) &&
  (match token s with
   | Some (Some w) =>
       negb (examined_b (pcs s w)) || (pend s =? 0) || cancelled s || negb (nil_b (wakers s)) || negb (f_hi r =? 0) || (f_d r =? 1)
   | _ => true
   end) &&
  nodup_b (wakers s) && nodup_b (rwakers s) && forallb (fun t => mem t L) (wakers s) && forallb (fun t => mem t L) (rwakers s) &&
  data_b (ck c) (pend s) (latched s) (merged s) (dropped s) (delivered s) (cancelled s) &&
  (latched s =? match token s with Some (Some w) => (match pcs s w with PW_call _ x => x | _ => 0 end) | _ => 0 end) &&
  (match running s, (match token s with Some (Some w) => (match pcs s w with PW_incall _ => Some w | _ => None end) | _ => None end) with
   | Some a, Some b => a =? b | None, None => true | _, _ => false end) &&
  forallb (thread_b s) L.

Fixpoint sched (c : cfg) (L : list Z) (depths : list nat) (fuel : nat) (w : nat) (ns np : Z) (s : gst) (qs : list (Z * list sact)) (ord : list Z) (done : Z) (ok : bool)
    : gst * Z * list Z * bool * list (Z * list sact) :=
  match fuel with
  | O => (s, done, ord, ok, qs)
  | S f =>
      match ord with
      | [] => (s, done, [], ok, qs)
      | _ => match pick2 c ns np s qs ord w depths with
             | Some (t, s', m) =>
                 sched c L depths f w (if m_sidx m =? -1 then ns else ns + 1) (if m_pidx m =? -1 then np else np + 1)
                       s' (pop_q t qs) (remove_first t ord) (done + 1) (ok && inv_b c L s')
             | None => (s, done, ord, ok, qs)
             end
      end
  end.

(* the state the replay starts from: the source at rest with the recorded word (unlocked, not enqueued; active and
   installed, or still inactive as created; a stale DIRTY / max-qos is allowed) and ds_pending_data = 0 *)
Definition init_from (w : Z) (inst : bool) : gst :=
  {| st := w; pend := 0; cancelled := false; installed := inst; rootq := 0; pcs := fun _ => Idle; token := None; wakers := [];
     rwakers := [];
     latched := 0; running := None; merged := []; dropped := []; delivered := [] |}.
Definition init_word_ok (w : Z) : bool :=
  let r := dec w in
  (0 <=? w) && (w <? 18446744073709551616) && (f_owner r =? 0) && (f_tr r =? 0) && (f_enq r =? 0) && (f_role r <? 2) &&
  (f_em r =? 0) && (f_pb r =? 0) && (f_wq r =? 4095) && (f_ib r =? 0) && hi_ok_b (f_hi r).

Definition all_idle (s : gst) (tids : list Z) : bool := forallb (fun t => match pcs s t with Idle => true | _ => false end) tids.
Definition token_code (s : gst) : Z := match token s with None => 0 | Some None => 1 | Some (Some _) => 2 end.

(* result: [actions executed; actions left; dq_state; ds_pending_data; rootq; all threads idle; invariant held on every
   state (and the start word was admissible); token (0 none / 1 in the target queue / 2 a thread); cancelled; handler calls;
   merges applied; next stuck thread or -1; shape of its program point; how many of its actions are left] *)
Definition replay (c : cfg) (w0 : Z) (inst : bool) (w : nat) (depths : list nat) (fb : bool) (qs : list (Z * list sact)) (ord : list Z) : list Z :=
  let L := map fst qs in
  let s0 := init_from w0 inst in
  let '(s, done, rest, ok, qs') := sched c L (if fb then depths ++ [length ord] else depths) (S (length ord)) w 0 0 s0 qs ord 0 (init_word_ok w0 && inv_b c L s0) in
  [done; Z.of_nat (length rest); st s; pend s; rootq s; b2z (all_idle s L); b2z ok; token_code s; b2z (cancelled s);
   Z.of_nat (length (delivered s)); Z.of_nat (length (merged s)); match rest with t :: _ => t | [] => -1 end;
   match rest with t :: _ => shape (pcs s t) | [] => -1 end;
   match rest with t :: _ => Z.of_nat (length (lookup t qs')) | [] => 0 end]
  ++ concat (map (fun x => match snd x with [] => [] | _ => [fst x; Z.of_nat (length (snd x)); shape (pcs s (fst x))] end) qs').
