(* Apply.v — model of dispatch_apply_f and its helpers (src/apply.c).
   Generated pieces (Gen_apply, regenerated from the source on every run): the whole of
   _dispatch_queue_try_reserve_apply_width (pre-loop test, rmw-loop body, returned width, memory order), the width
   constants, and the ordered atomic-site lists of _dispatch_apply_invoke2 / _dispatch_apply_redirect /
   _dispatch_queue_relinquish_width / _dispatch_thread_event_wait_slow.
   Hand-written: (1) the thread-count arithmetic and the path decision of dispatch_apply_f, (2) the loop of
   _dispatch_apply_redirect over a chain of queues and _dispatch_queue_relinquish_width, (3) the loop of
   _dispatch_apply_serial, (4) the per-thread automaton of _dispatch_apply_invoke2 (+ the thread event of
   src/shims/lock.h, lock.c) and the global model of one shared apply record with ghost state. *)
From Coq Require Import ZArith Bool List.
From Verif Require Import Word Conc Gen_consts Gen_fields Gen_apply.
Import ListNotations.
Local Open Scope Z_scope.

(* ================================================================== 1. dispatch_apply_f: thread count and path *)
Definition APPLY_MAX := 65535.                     (* DISPATCH_APPLY_MAX = UINT16_MAX *)

(* src/apply.c:311-323; maxpar = _dispatch_qos_max_parallelism(qos, ACTIVE) (uint32_t), nested = dtc_apply_nesting of
   the calling thread (0 when not inside an apply).  Returns (thr_cnt, da_nested). *)
Definition apply_thr_cnt (maxpar nested iterations : Z) : Z * Z :=
  let thr0 := s32 maxpar in
  let thr1 := if nested =? 0 then thr0
              else if nested <? u64 thr0 then s32 (Z.quot thr0 (s32 nested)) else 1 in
  let nested' := if nested =? 0 then iterations
                 else if (nested <? APPLY_MAX) && (iterations <? APPLY_MAX) then u64 (nested * iterations) else APPLY_MAX in
  let thr2 := if iterations <? u64 thr1 then s32 iterations else thr1 in
  (thr2, nested').

Inductive path := PathReturn | PathSerial | PathRedirect (thr_cnt : Z) | PathParallel (thr_cnt : Z).
(* src/apply.c:290 and :344-357 *)
Definition apply_f_path (iterations nested maxpar dq_width : Z) (has_target on_self : bool) : path :=
  if iterations =? 0 then PathReturn
  else let thr_cnt := fst (apply_thr_cnt maxpar nested iterations) in
       if (dq_width =? 1) || (thr_cnt <=? 1) then PathSerial
       else if has_target then (if on_self then PathSerial else PathRedirect thr_cnt)
       else PathParallel thr_cnt.

(* ================================================================== 2. width reservation over a chain of queues *)
Definition WIDTH_INTERVAL := DISPATCH_QUEUE_WIDTH_INTERVAL.

Record level := mkLevel { lv_width : Z (* dq_width *); lv_state : Z (* dq_state *) }.
(* the operations on dq_state words that src/apply.c performs, as reported by the DISPATCH_VERIF hook *)
Inductive wop := WLoad (lvl old : Z) | WCas (lvl old new : Z) | WSub (lvl old delta : Z).

(* one call of _dispatch_queue_try_reserve_apply_width on a queue nobody else touches meanwhile: the first iteration
   of the rmw loop commits.  Returns the queue, the granted width and the operations performed. *)
Definition try_reserve (k : Z) (l : level) (da_width : Z) : level * Z * list wop :=
  match f_dispatch_queue_try_reserve_apply_width 0 da_width (lv_width l) (lv_state l) with
  | Commit new w => (mkLevel (lv_width l) new, w, [WLoad k (lv_state l); WCas k (lv_state l) new])
  | NoCommit r _ => (l, r, if lv_width l =? 1 then [] else [WLoad k (lv_state l)])
  | _ => (l, 0, [])
  end.

(* _dispatch_queue_relinquish_width on one queue: os_atomic_sub2o(dq, dq_state, (uint64_t)da_width * INTERVAL, relaxed) *)
Definition relinq_delta (da_width : Z) : Z := u64 (u64 da_width * WIDTH_INTERVAL).
Definition relinq1 (da_width : Z) (l : level) : level :=
  mkLevel (lv_width l) (u64 (lv_state l - relinq_delta da_width)).
Fixpoint relinq_log (k da_width : Z) (ls : list level) : list wop :=
  match ls with [] => [] | l :: r => WSub k (lv_state l) (relinq_delta da_width) :: relinq_log (k + 1) da_width r end.

Record rres := mkR { r_chain : list level; r_width : Z; r_thr : Z; r_serial : bool; r_log : list wop }.

(* the do-while of _dispatch_apply_redirect: `above` = queues already visited (top first), `rest` = queues still to
   visit (all non-root queues of the chain) *)
Fixpoint redirect_loop (above rest : list level) (da_width thr_cnt : Z) (log : list wop) : rres :=
  match rest with
  | [] => mkR above da_width thr_cnt false log
  | l :: rest' =>
      let k := Z.of_nat (length above) in
      let rv := try_reserve k l da_width in
      let l' := fst (fst rv) in let width := snd (fst rv) in let lg := snd rv in
      if da_width >? width then
        let excess := s32 (da_width - width) in
        let lg2 := relinq_log 0 excess above in
        let above' := map (relinq1 excess) above in
        if width =? 0 then mkR (above' ++ l' :: rest') 0 thr_cnt true (log ++ lg ++ lg2)
        else redirect_loop (above' ++ [l']) rest' width (s32 (thr_cnt - excess)) (log ++ lg ++ lg2)
      else redirect_loop (above ++ [l']) rest' da_width thr_cnt (log ++ lg)
  end.

(* _dispatch_apply_redirect: state of the chain while the apply runs, then after the final relinquish *)
Definition redirect_during (chain : list level) (thr_cnt : Z) : rres :=
  redirect_loop [] chain (s32 (thr_cnt - 1)) thr_cnt [].
Definition redirect_after (r : rres) : list level * list wop :=
  if r_serial r then (r_chain r, r_log r)
  else (map (relinq1 (r_width r)) (r_chain r), r_log r ++ relinq_log 0 (r_width r) (r_chain r)).

Definition avail (l : level) : Z := if lv_width l =? 1 then 0 else f_dq_state_available_width (lv_state l).
Definition min_avail (chain : list level) (w0 : Z) : Z := fold_left (fun w l => Z.min w (avail l)) chain w0.
Definition add_width (w : Z) (l : level) : level := mkLevel (lv_width l) (lv_state l + w * WIDTH_INTERVAL).

(* ================================================================== 3. _dispatch_apply_serial *)
(* do { callout(idx) } while (++idx < iter): the indices invoked, in order *)
Fixpoint serial_loop (fuel : nat) (idx iter : Z) : list Z :=
  match fuel with
  | O => []
  | S f => idx :: (if u64 (idx + 1) <? iter then serial_loop f (u64 (idx + 1)) iter else [])
  end.
Definition apply_serial (iter : Z) : list Z := serial_loop (Z.to_nat iter) 0 iter.
Fixpoint zrange (start : Z) (len : nat) : list Z :=
  match len with O => [] | S k => start :: zrange (start + 1) k end.

(* ================================================================== 4. _dispatch_apply_invoke2 *)
Definition UMAX32 := UINT32_MAX.
(* offsets of the fields inside struct dispatch_apply_s (checked by _Static_assert in harness/c10_apply.c) *)
Definition OFF_INDEX := 8. Definition OFF_TODO := 16. Definition OFF_EVENT := 40. Definition OFF_THRCNT := 48.

Definition mo_code (o : morder) : Z :=
  match o with Relaxed => 0 | Consume => 1 | Acquire => 2 | Release => 3 | AcqRel => 4 | SeqCst => 5 end.
Definition kind_code (k : akind) : Z :=
  match k with KLoad => DV_LOAD | KStore => DV_STORE | KXchg => DV_XCHG | KCas => DV_CAS | KCasWeak => DV_CASW
             | KAdd => DV_ADD | KSub => DV_SUB | KAnd => DV_AND | KOr => DV_OR | KXor => DV_XOR | KFence => DV_FENCE end.
(* the atomic sites of the modelled code, in program order *)
Definition st_first := {| s_kind := KAdd; s_field := F_da_index; s_order := Acquire |}.     (* apply.c:36 *)
Definition st_next := {| s_kind := KAdd; s_field := F_da_index; s_order := Relaxed |}.      (* apply.c:67 *)
Definition st_todo := {| s_kind := KSub; s_field := F_da_todo; s_order := Release |}.       (* apply.c:80 *)
Definition st_signal := {| s_kind := KAdd; s_field := F_dte_value; s_order := Release |}.   (* lock.h:304 *)
Definition st_wait := {| s_kind := KSub; s_field := F_dte_value; s_order := Acquire |}.     (* lock.h:322 *)
Definition st_thrcnt := {| s_kind := KSub; s_field := F_da_thr_cnt; s_order := Release |}.  (* apply.c:88 *)
Definition st_wload := {| s_kind := KLoad; s_field := F_dte_value; s_order := Acquire |}.   (* lock.c:570 *)
Definition model_sites_invoke2 : list site := [st_first; st_next; st_todo; st_signal; st_wait; st_thrcnt].
Definition model_sites_wait_slow : list site := [st_wload].
Definition model_sites_relinquish : list site := [ {| s_kind := KSub; s_field := F_dq_state; s_order := Relaxed |} ].

Definition ev_site (e : event) (s : site) (off : Z) : bool := ev_is e (kind_code (s_kind s)) (mo_code (s_order s)) off.

Inductive pc :=
| PIdle                    (* has not entered _dispatch_apply_invoke2 (a helper continuation not yet run) *)
| PFirst                   (* entered: idx = os_atomic_inc_orig2o(da, da_index, acquire) next *)
| PCall (idx done : Z)     (* holds index idx < iter: _dispatch_client_callout2(ctxt, idx, func) next *)
| PInCall (idx done : Z)   (* inside the work function *)
| PNext (done : Z)         (* done++ executed: idx = os_atomic_inc_orig2o(da, da_index, relaxed) next *)
| PSub (done : Z)          (* left the loop: os_atomic_sub2o(da, da_todo, done, release) next *)
| PSignal                  (* da_todo became 0: _dispatch_thread_event_signal: inc_orig(dte_value, release) next *)
| PWake                    (* the event value was not 0: _dispatch_thread_event_signal_slow: futex_wake next *)
| PWaitDec                 (* WAIT flavour, label out: _dispatch_thread_event_wait: dec(dte_value, acquire) next *)
| PWaitLoad                (* _dispatch_thread_event_wait_slow: load(dte_value, acquire) next *)
| PWaitFutex               (* value was UINT32_MAX: futex_wait(&dte_value, UINT32_MAX) next *)
| PWaitSleep               (* inside futex_wait *)
| PDec                     (* os_atomic_dec2o(da, da_thr_cnt, release) next; the record is freed when the result is 0 *)
| PDone                    (* _dispatch_apply_invoke2 returned *)
| PRet                     (* caller only: dispatch_apply_f returned *)
| PCrash.                  (* DISPATCH_CLIENT_CRASH("Corrupt thread event value") *)

(* label `out:` *)
Definition out (wait : bool) : pc := if wait then PWaitDec else PDec.

(* the per-thread automaton: iter = da_iterations, wait = DISPATCH_APPLY_INVOKE_WAIT (the thread that called
   dispatch_apply_f).  Accepts exactly the event sequences one participant may perform on the shared record. *)
Definition tstep (iter : Z) (wait : bool) (p : pc) (e : event) : option pc :=
  match p with
  | PIdle => if ev_kind e DVU_MARK then Some PFirst else None
  | PFirst => if ev_site e st_first OFF_INDEX && (eb e =? 1)
              then Some (if ea e >=? iter then out wait else PCall (ea e) 0) else None
  | PCall idx done => if ev_kind e DVU_CALLOUT_BEGIN && (ea e =? idx) then Some (PInCall idx done) else None
  | PInCall idx done => if ev_kind e DVU_CALLOUT_END then Some (PNext (done + 1)) else None
  | PNext done => if ev_site e st_next OFF_INDEX && (eb e =? 1)
                  then Some (if ea e <? iter then PCall (ea e) done else PSub done) else None
  | PSub done => if ev_site e st_todo OFF_TODO && (eb e =? done)
                 then Some (if wrapsz 8 (ea e - done) =? 0 then PSignal else out wait) else None
  | PSignal => if ev_site e st_signal OFF_EVENT && (eb e =? 1)
               then Some (if ea e =? 0 then out wait else PWake) else None
  | PWake => if ev_kind e DV_FUTEX_WAKE then Some (out wait) else None
  | PWaitDec => if ev_site e st_wait OFF_EVENT && (eb e =? 1)
                then Some (if wrapsz 4 (ea e - 1) =? 0 then PDec else PWaitLoad) else None
  | PWaitLoad => if ev_site e st_wload OFF_EVENT
                 then Some (if ea e =? 0 then PDec else if ea e =? UMAX32 then PWaitFutex else PCrash) else None
  | PWaitFutex => if ev_kind e DV_FUTEX_WAIT && (ea e =? UMAX32) then Some PWaitSleep else None
  | PWaitSleep => if ev_kind e DV_FUTEX_WAIT_RET then Some PWaitLoad else None
  | PDec => if ev_site e st_thrcnt OFF_THRCNT && (eb e =? 1) then Some PDone else None
  | PDone => if wait && ev_kind e DVU_RET then Some PRet else None
  | PRet => None
  | PCrash => None
  end.

(* ------------------------------------------------------------------ global model of one apply record *)
Inductive sleepst := Awake | NoSleep | Sleeping | Woken.

Record gst := mkG {
  index : Z;                 (* da_index (size_t) *)
  todo : Z;                  (* da_todo (size_t) *)
  thrcnt : Z;                (* da_thr_cnt (int32_t) *)
  evt : Z;                   (* da_event.dte_value (uint32_t) *)
  pcs : Z -> pc;             (* program point of every participant (a participant = one run of invoke2) *)
  parts : list Z;            (* ghost: participants that have entered invoke2, most recent first *)
  slp : sleepst;             (* kernel side of the caller's futex_wait *)
  owner : Z -> option Z;     (* ghost: which participant claimed index i *)
  begun : Z -> Z;            (* ghost: number of times the work function was entered with index i *)
  ended : Z -> Z;            (* ghost: number of times it returned *)
  signaller : option Z;      (* ghost: the participant whose subtraction brought da_todo to 0 *)
  sigd : bool;               (* ghost: the event has been signalled *)
  waited : bool;             (* ghost: the caller has executed the decrement of the event *)
  freed : Z;                 (* ghost: number of times the record was freed *)
  uaf : bool;                (* ghost: some access to the record happened after it had been freed *)
  dcbad : bool;              (* ghost: da_dc (the caller's stack) was read after dispatch_apply_f had returned *)
  returned : bool            (* ghost: dispatch_apply_f has returned *)
}.

Definition set_pc (s : gst) (t : Z) (p : pc) : gst :=
  mkG (index s) (todo s) (thrcnt s) (evt s) (upd (pcs s) t p) (parts s) (slp s) (owner s) (begun s) (ended s)
      (signaller s) (sigd s) (waited s) (freed s) (uaf s) (dcbad s) (returned s).
(* every access to a field of the record is checked against the freed flag *)
Definition touch (s : gst) : gst :=
  mkG (index s) (todo s) (thrcnt s) (evt s) (pcs s) (parts s) (slp s) (owner s) (begun s) (ended s)
      (signaller s) (sigd s) (waited s) (freed s) (uaf s || (0 <? freed s)) (dcbad s) (returned s).
Definition set_parts (s : gst) (l : list Z) : gst :=
  mkG (index s) (todo s) (thrcnt s) (evt s) (pcs s) l (slp s) (owner s) (begun s) (ended s)
      (signaller s) (sigd s) (waited s) (freed s) (uaf s) (dcbad s) (returned s).
Definition set_index (s : gst) (v : Z) (ow : Z -> option Z) : gst :=
  mkG v (todo s) (thrcnt s) (evt s) (pcs s) (parts s) (slp s) ow (begun s) (ended s)
      (signaller s) (sigd s) (waited s) (freed s) (uaf s) (dcbad s) (returned s).
Definition set_begun (s : gst) (f : Z -> Z) (bad : bool) : gst :=
  mkG (index s) (todo s) (thrcnt s) (evt s) (pcs s) (parts s) (slp s) (owner s) f (ended s)
      (signaller s) (sigd s) (waited s) (freed s) (uaf s) bad (returned s).
Definition set_ended (s : gst) (f : Z -> Z) : gst :=
  mkG (index s) (todo s) (thrcnt s) (evt s) (pcs s) (parts s) (slp s) (owner s) (begun s) f
      (signaller s) (sigd s) (waited s) (freed s) (uaf s) (dcbad s) (returned s).
Definition set_todo (s : gst) (v : Z) (sg : option Z) : gst :=
  mkG (index s) v (thrcnt s) (evt s) (pcs s) (parts s) (slp s) (owner s) (begun s) (ended s)
      sg (sigd s) (waited s) (freed s) (uaf s) (dcbad s) (returned s).
Definition set_evt (s : gst) (v : Z) (sd wt : bool) : gst :=
  mkG (index s) (todo s) (thrcnt s) v (pcs s) (parts s) (slp s) (owner s) (begun s) (ended s)
      (signaller s) sd wt (freed s) (uaf s) (dcbad s) (returned s).
Definition set_slp (s : gst) (x : sleepst) : gst :=
  mkG (index s) (todo s) (thrcnt s) (evt s) (pcs s) (parts s) x (owner s) (begun s) (ended s)
      (signaller s) (sigd s) (waited s) (freed s) (uaf s) (dcbad s) (returned s).
Definition set_thrcnt (s : gst) (v : Z) (fr : Z) : gst :=
  mkG (index s) (todo s) v (evt s) (pcs s) (parts s) (slp s) (owner s) (begun s) (ended s)
      (signaller s) (sigd s) (waited s) fr (uaf s) (dcbad s) (returned s).
Definition set_returned (s : gst) : gst :=
  mkG (index s) (todo s) (thrcnt s) (evt s) (pcs s) (parts s) (slp s) (owner s) (begun s) (ended s)
      (signaller s) (sigd s) (waited s) (freed s) (uaf s) (dcbad s) true.

Section Global.
  (* iterations, initial da_thr_cnt (the caller + T-1 helper continuations pushed by _dispatch_apply_f), the caller *)
  Variables (n T c : Z).

  Definition init_state : gst :=
    mkG 0 n T 0 (upd (fun _ => PIdle) c PFirst) [c] Awake (fun _ => None) (fun _ => 0) (fun _ => 0)
        None false false 0 false false false.

  (* one step of participant t performing event e *)
  Definition gstep (s : gst) (t : Z) (e : event) : option gst :=
    let w := t =? c in
    match tstep n w (pcs s t) e with
    | None => None
    | Some p' =>
      match pcs s t with
      | PIdle =>    (* a helper continuation is popped from the root queue and invoked: at most T-1 of them exist *)
          if negb w && (Z.of_nat (length (parts s)) <? T) then Some (set_pc (set_parts s (t :: parts s)) t p') else None
      | PFirst | PNext _ =>   (* fetch-and-increment of da_index; an index below iter is claimed by t *)
          if ea e =? index s
          then Some (set_pc (set_index (touch s) (wrapsz 8 (index s + 1))
                                       (if index s <? n then upd (owner s) (index s) (Some t) else owner s)) t p')
          else None
      | PCall idx done =>     (* the first iteration reads da->da_dc (func, ctxt): the caller's stack frame *)
          Some (set_pc (set_begun s (upd (begun s) idx (begun s idx + 1)) (dcbad s || ((done =? 0) && returned s))) t p')
      | PInCall idx done => Some (set_pc (set_ended s (upd (ended s) idx (ended s idx + 1))) t p')
      | PSub done =>
          if ea e =? todo s
          then let v := wrapsz 8 (todo s - done) in
               Some (set_pc (set_todo (touch s) v (if v =? 0 then Some t else signaller s)) t p')
          else None
      | PSignal => if ea e =? evt s then Some (set_pc (set_evt (touch s) (wrapsz 4 (evt s + 1)) true (waited s)) t p') else None
      | PWake => Some (set_pc (set_slp (touch s) (match slp s with Sleeping => Woken | x => x end)) t p')
      | PWaitDec => if ea e =? evt s then Some (set_pc (set_evt (touch s) (wrapsz 4 (evt s - 1)) (sigd s) true) t p') else None
      | PWaitLoad => if ea e =? evt s then Some (set_pc (touch s) t p') else None
      | PWaitFutex => Some (set_pc (set_slp (touch s) (if evt s =? UMAX32 then Sleeping else NoSleep)) t p')
      | PWaitSleep => Some (set_pc (set_slp s Awake) t p')      (* woken, value changed, EINTR or spurious *)
      | PDec =>
          if ea e =? thrcnt s
          then let v := s32 (thrcnt s - 1) in
               Some (set_pc (set_thrcnt (touch s) v (if v =? 0 then freed s + 1 else freed s)) t p')
          else None
      | PDone => Some (set_pc (set_returned s) t p')
      | PRet | PCrash => None
      end
    end.

  Definition valid_params : Prop := 1 <= n /\ 1 <= T < 2147483648 /\ n + T < 18446744073709551616.
  Definition step (s : gst) (a : Z * event) (s' : gst) : Prop := gstep s (fst a) (snd a) = Some s'.
  Definition reach : gst -> Prop := reachable (fun s => s = init_state) step.

  Fixpoint grun (s : gst) (tr : list (Z * event)) : option gst :=
    match tr with
    | [] => Some s
    | (t, e) :: tr' => match gstep s t e with Some s' => grun s' tr' | None => None end
    end.
End Global.

(* quantities the invariants sum over the participants *)
Definition pending (p : pc) : Z :=
  match p with PCall _ d | PInCall _ d => d + 1 | PNext d | PSub d => d | _ => 0 end.
Definition holds (p : pc) : Z := match p with PIdle | PDone | PRet => 0 | _ => 1 end.
Definition over (p : pc) : Z := match p with PIdle | PFirst | PCall _ _ | PInCall _ _ | PNext _ => 0 | _ => 1 end.
Fixpoint lsum (f : Z -> Z) (l : list Z) : Z := match l with [] => 0 | x :: r => f x + lsum f r end.
Definition psum (g : pc -> Z) (s : gst) : Z := lsum (fun u => g (pcs s u)) (parts s).
Definition waiting (p : pc) : bool :=
  match p with PWaitDec | PWaitLoad | PWaitFutex | PWaitSleep => true | _ => false end.

(* vocabulary of the invariants (Proofs/Apply_proofs.v) and of their executable version (Model/ApplyR.v) *)
Definition evt_enc (sd wt : bool) : Z :=
  match sd, wt with false, false => 0 | true, false => 1 | false, true => UMAX32 | true, true => 0 end.
(* the values begun / ended must have for an index whose owner stands at p *)
Definition bval (p : pc) (i : Z) : Z := match p with PCall j _ => if j =? i then 0 else 1 | _ => 1 end.
Definition eval_ (p : pc) (i : Z) : Z := match p with PCall j _ | PInCall j _ => if j =? i then 0 else 1 | _ => 1 end.
Definition past_wait (p : pc) : bool :=
  match p with PWaitLoad | PWaitFutex | PWaitSleep | PDec | PDone | PRet => true | _ => false end.
Definition past_event (p : pc) : bool := match p with PDec | PDone | PRet => true | _ => false end.
Definition is_ret (p : pc) : bool := match p with PRet => true | _ => false end.

(* for the correspondence driver: run one recorded participation (the events of one run of _dispatch_apply_invoke2 on
   one record, for the caller up to the return of dispatch_apply_f); cfg = 2 * iterations + (1 if caller) *)
Definition pc_final (wait : bool) (p : pc) : Z :=
  match p with PDone => if wait then 0 else 1 | PRet => 1 | _ => 0 end.
Definition conform (cfg : Z) (tr : list event) : Z * Z :=
  let iter := cfg / 2 in let wait := cfg mod 2 =? 1 in
  let '(p, i) := run_trace (tstep iter wait) PIdle tr 0 in (i, pc_final wait p).

(* for the differential driver of the width arithmetic: everything dispatch_apply_f does to the dq_state words of
   a chain of queues, as (path code, final da_thr_cnt, operations, final states) *)
Definition wop_code (o : wop) : list Z :=
  match o with WLoad k a => [1; k; a; a] | WCas k a b => [5; k; a; b] | WSub k a d => [7; k; a; d] end.
Definition width_case (iterations maxpar nest : Z) (on_self : bool) (chain : list level) : list Z * list (list Z) * list Z :=
  let nested := if nest =? 0 then 0
                else match apply_f_path nest 0 maxpar 0 false false with
                     | PathParallel _ => snd (apply_thr_cnt maxpar 0 nest) | _ => 0 end in
  let topw := match chain with l :: _ => lv_width l | [] => 0 end in
  match apply_f_path iterations nested maxpar topw true on_self with
  | PathReturn => ([0; 0], [], map lv_state chain)
  | PathSerial => ([1; 0], [], map lv_state chain)
  | PathParallel t => ([4; t], [], map lv_state chain)
  | PathRedirect t =>
      let r := redirect_during chain t in
      let fin := redirect_after r in
      ([if r_serial r then 2 else 3; if r_serial r then 0 else r_thr r; r_width r],
       map wop_code (snd fin), map lv_state (r_chain r) ++ map lv_state (fst fin))
  end.
