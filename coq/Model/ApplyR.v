(* ApplyR.v — replay of a whole recorded round (all participants of ONE dispatch_apply: the caller and every helper run
   of _dispatch_apply_invoke2 on one shared record) as a run of the GLOBAL model Apply.gstep, and an executable version
   of the invariant of Proofs/Apply_proofs.v evaluated on the states the replay passes through.

   In Model/Apply.v an action of the global model IS (participant, recorded event): gstep takes the event the hook
   recorded, requires that the participant's automaton accepts it, that the value the operation observed (ea) is the
   value of the word in the model (da_index, da_todo, da_thr_cnt, the thread event), that the step is enabled (a helper
   may start only while continuations are left), and computes the written value, the branch taken and the ghost state.
   So the abstraction of a thread's observation sequence into model actions is the identity; what the per-thread
   conformance (Apply.tstep) cannot see and this replay does: the shared-state side of every step.

   `sched`: given every participant's action list and a preferred global order (the recorder's stamps made consistent
   with the exact old->new chains of the four words, see lib/props/c10.py), execute the actions on Apply.gstep: at each
   point the first participant (within a window of the preferred order) whose next action is ENABLED in the model and
   has the RECORDED outcome is taken.  Recorded outcome beyond the observed word values: the return code of futex_wait
   (EWOULDBLOCK iff the model's kernel did not put the caller to sleep).  The round is reproduced iff every action is
   consumed and the model ends in the recorded final state.  The scheduler never invents a model step and never skips one. *)
From Coq Require Import ZArith Bool List.
From Verif Require Import Word Conc Gen_consts Gen_fields Gen_apply Apply.
Import ListNotations.
Local Open Scope Z_scope.

Record sact := mkSA { s_tid : Z; s_ev : event }.
Definition EWOULDBLOCK := 11.

Fixpoint lookup (t : Z) (qs : list (Z * list sact)) : list sact :=
  match qs with [] => [] | (u, l) :: r => if u =? t then l else lookup t r end.
Fixpoint pop_q (t : Z) (qs : list (Z * list sact)) : list (Z * list sact) :=
  match qs with [] => [] | (u, l) :: r => if u =? t then (u, tl l) :: r else (u, l) :: pop_q t r end.
Fixpoint remove_first (t : Z) (l : list Z) : list Z :=
  match l with [] => [] | x :: r => if x =? t then r else x :: remove_first t r end.
Fixpoint nodupb (l : list Z) : bool :=
  match l with [] => true | x :: r => negb (existsb (Z.eqb x) r) && nodupb r end.
Definition optz_eqb (a b : option Z) : bool :=
  match a, b with Some x, Some y => x =? y | None, None => true | _, _ => false end.
Definition is_idle (p : pc) : bool := match p with PIdle => true | _ => false end.
Definition is_signal (p : pc) : bool := match p with PSignal => true | _ => false end.
Definition is_wake (p : pc) : bool := match p with PWake => true | _ => false end.
Definition is_waitsleep (p : pc) : bool := match p with PWaitSleep => true | _ => false end.

Section Replay.
  Variables (n T c : Z).

  (* the recorded outcome of the kernel call: futex_wait returned EWOULDBLOCK iff the value had already changed *)
  Definition outcome_ok (s : gst) (t : Z) (e : event) : bool :=
    match pcs s t with
    | PWaitSleep => match slp s with
                    | NoSleep => eb e =? EWOULDBLOCK
                    | _ => negb (eb e =? EWOULDBLOCK)
                    end
    | _ => true
    end.

  Definition try_act (s : gst) (a : sact) : option gst :=
    if outcome_ok s (s_tid a) (s_ev a) then gstep n T c s (s_tid a) (s_ev a) else None.

  (* among the first w entries of the preferred order: the first participant whose next action is enabled with the
     recorded outcome *)
  Fixpoint pick (s : gst) (qs : list (Z * list sact)) (ord : list Z) (seen : list Z) (w : nat) : option (Z * gst) :=
    match w, ord with
    | O, _ | _, [] => None
    | S w', t :: r =>
        if existsb (Z.eqb t) seen then pick s qs r seen w'
        else match lookup t qs with
             | a :: _ => match try_act s a with
                         | Some s' => Some (t, s')
                         | None => pick s qs r (t :: seen) w'
                         end
             | [] => pick s qs r (t :: seen) w'
             end
    end.

  (* ---- the invariant of Proofs/Apply_proofs.v (Inv), executable; tids = the participants to look at (every other
     id must be, and is checked to be, absent from `parts` only through nodup / length), indices -1 .. n+1 ---- *)
  Definition at_pc_b (s : gst) (t : Z) : bool :=
    match pcs s t with
    | PCall i d | PInCall i d => (0 <=? i) && (i <? n) && (i <? index s) && optz_eqb (owner s i) (Some t) && (0 <=? d)
    | PNext d | PSub d => 1 <=? d
    | PSignal => optz_eqb (signaller s) (Some t) && negb (sigd s)
    | PWake => optz_eqb (signaller s) (Some t)
    | PWaitDec | PWaitLoad | PWaitFutex | PWaitSleep | PRet => t =? c
    | PCrash => false
    | _ => true
    end.
  Definition thread_inv_b (s : gst) (t : Z) : bool :=
    at_pc_b s t && ((over (pcs s t) =? 0) || (n <=? index s)) &&
    eqb (negb (is_idle (pcs s t))) (existsb (Z.eqb t) (parts s)).
  Definition index_inv_b (s : gst) (i : Z) : bool :=
    if (0 <=? i) && (i <? Z.min (index s) n)
    then match owner s i with
         | Some t => (begun s i =? bval (pcs s t) i) && (ended s i =? eval_ (pcs s t) i)
         | None => false
         end
    else optz_eqb (owner s i) None && (begun s i =? 0) && (ended s i =? 0).
  Definition ginv_b (s : gst) : bool :=
    (0 <=? index s) && (index s <=? n + psum over s) &&
    (todo s =? n - Z.min (index s) n + psum pending s) && (todo s <=? n) &&
    (thrcnt s =? T - Z.of_nat (length (parts s)) + psum holds s) && nodupb (parts s) &&
    (Z.of_nat (length (parts s)) <=? T) && existsb (Z.eqb c) (parts s) &&
    (evt s =? evt_enc (sigd s) (waited s)) &&
    (match signaller s with
     | None => (0 <? todo s) && negb (sigd s)
     | Some g => (todo s =? 0) && eqb (negb (sigd s)) (is_signal (pcs s g))
     end) &&
    (if thrcnt s =? 0 then freed s =? 1 else freed s =? 0) && negb (uaf s) && negb (dcbad s) &&
    eqb (waited s) (past_wait (pcs s c)) && (negb (past_event (pcs s c)) || sigd s) &&
    eqb (returned s) (is_ret (pcs s c)) &&
    (match slp s with
     | Sleeping => is_waitsleep (pcs s c) &&
                   (negb (sigd s) || match signaller s with Some g => is_wake (pcs s g) | None => false end)
     | _ => true
     end).
  Definition inv_b (tids : list Z) (s : gst) : bool :=
    ginv_b s && forallb (thread_inv_b s) tids && forallb (index_inv_b s) (zrange (-1) (Z.to_nat (n + 3))).

  (* fuel-bounded scheduler; chk: evaluate inv_b on every state passed through (else only on the end state) *)
  Record sres := mkSres { x_st : gst; x_done : Z; x_rest : list Z; x_bad : Z; x_first : Z; x_qs : list (Z * list sact) }.
  Fixpoint sched (fuel : nat) (w : nat) (chk : bool) (tids : list Z) (s : gst) (qs : list (Z * list sact)) (ord : list Z)
           (done bad first : Z) : sres :=
    match fuel with
    | O => mkSres s done ord bad first qs
    | S f =>
        match ord with
        | [] => mkSres s done [] bad first qs
        | _ => match pick s qs ord [] w with
               | Some (t, s') =>
                   let ok := if chk then inv_b tids s' else true in
                   sched f w chk tids s' (pop_q t qs) (remove_first t ord) (done + 1)
                         (if ok then bad else bad + 1) (if ok then first else if first =? -1 then done + 1 else first)
               | None => mkSres s done ord bad first qs
               end
        end
    end.

  Definition pc_code (p : pc) : Z :=
    match p with
    | PIdle => 0 | PFirst => 1 | PCall _ _ => 2 | PInCall _ _ => 3 | PNext _ => 4 | PSub _ => 5 | PSignal => 6 | PWake => 7
    | PWaitDec => 8 | PWaitLoad => 9 | PWaitFutex => 10 | PWaitSleep => 11 | PDec => 12 | PDone => 13 | PRet => 14 | PCrash => 15
    end.

  (* result: [actions executed; actions left; da_index; da_todo; da_thr_cnt; event word; freed; uaf; dcbad; returned;
              states violating inv_b (the end state is always evaluated); step of the first violation or -1;
              every index below n begun once and ended once; participants that entered;
              next stuck participant or -1; its number of unconsumed actions; its program point in the model] *)
  Definition replay (w : nat) (chk : bool) (tids : list Z) (qs : list (Z * list sact)) (ord : list Z) : list Z :=
    let r := sched (S (length ord)) w chk tids (init_state n T c) qs ord 0 0 (-1) in
    let s := x_st r in
    let endok := inv_b tids s in
    let stuck := match x_rest r with t :: _ => t | [] => -1 end in
    [x_done r; Z.of_nat (length (x_rest r)); index s; todo s; thrcnt s; evt s; freed s; b2z (uaf s); b2z (dcbad s); b2z (returned s);
     (if chk then x_bad r else if endok then 0 else 1); (if endok then x_first r else if x_first r =? -1 then x_done r else x_first r);
     b2z (forallb (fun i => (begun s i =? 1) && (ended s i =? 1)) (zrange 0 (Z.to_nat n)));
     Z.of_nat (length (parts s)); stuck; Z.of_nat (length (lookup stuck (x_qs r))); pc_code (pcs s stuck)].
End Replay.
