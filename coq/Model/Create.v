(* Create.v — hand model of _dispatch_lane_create_with_target (src/queue.c:2674-2792) for EVERY kind of target, of
   _dispatch_queue_priority_inherit_from_target (:2634) and _dispatch_lane_inherit_wlh_from_target (:2419) as called from it, of
   _dispatch_queue_init (inline_internal.h:1138), and of the getters dispatch_queue_get_label / dispatch_queue_get_qos_class
   (queue.c:3173-3190), on the WORDS the code computes: dq_priority (shims/priority.h bit layout), dq_state, dq_atomic_flags.
   Extends Model/Attr.v (whose `report` covers the default target only and computes no word).
   Tie: harness/c18_create.c creates the queue through the public API and prints label comparison, reported class / relative
   priority, and (white-box reads) do_targetq, dq_width, dq_state, dq_atomic_flags, dq_priority: compared with `create_line`.
   Definitions only (proofs: Proofs/Create_proofs.v). *)
From Coq Require Import ZArith Bool List.
From Verif Require Import Word Gen_consts Gen_qos Gen_dqstate Attr.
Import ListNotations.
Local Open Scope Z_scope.

(* ---- shims/priority.h.  The harness prints the library's values of these constants and of the 12 root queue priorities. *)
Definition PRI_RELPRI_MASK : Z := 255.
Definition PRI_QOS_MASK : Z := 3840.
Definition PRI_QOS_SHIFT : Z := 8.
Definition PRI_REQUESTED_MASK : Z := 4095.
Definition PRI_FALLBACK_QOS_MASK : Z := 61440.
Definition PRI_FALLBACK_QOS_SHIFT : Z := 12.
Definition PRI_FLAG_OVERCOMMIT : Z := 2147483648.
Definition PRI_FLAG_FALLBACK : Z := 67108864.
Definition PRI_FLAG_FLOOR : Z := 1073741824.
Definition PRI_FLAG_INHERITED : Z := 536870912.
(* _dispatch_priority_make(qos, relpri): (qos ? ((qos << 8) & QOS_MASK) | ((dispatch_priority_t)(relpri - 1) & RELPRI_MASK) : 0) *)
Definition priority_make (qos relpri : Z) : Z :=
  if nz qos then Z.lor (Z.land (Z.shiftl qos PRI_QOS_SHIFT) PRI_QOS_MASK) (Z.land (u32 (relpri - 1)) PRI_RELPRI_MASK) else 0.
Definition priority_make_fallback (qos : Z) : Z :=
  if nz qos then Z.lor (Z.land (Z.shiftl qos PRI_FALLBACK_QOS_SHIFT) PRI_FALLBACK_QOS_MASK) PRI_FLAG_FALLBACK else 0.
(* _dispatch_priority_qos / _dispatch_priority_relpri ((int8_t)(dbp & RELPRI_MASK) + 1 when the qos bits are set, else 0) *)
Definition priority_qos (p : Z) : Z := Z.shiftr (Z.land p PRI_QOS_MASK) PRI_QOS_SHIFT.
Definition priority_relpri (p : Z) : Z := if nz (Z.land p PRI_QOS_MASK) then s8 (Z.land p PRI_RELPRI_MASK) + 1 else 0.
Definition manually_selected (p : Z) : bool :=
  negb (nz (Z.land p PRI_FLAG_INHERITED)) &&
  nz (Z.land p (Z.lor PRI_FLAG_FALLBACK (Z.lor PRI_FLAG_FLOOR PRI_REQUESTED_MASK))).

(* _dispatch_root_queues[i].dq_priority (init.c:309-369): index i = 2*(qos-1) + overcommit; the DEFAULT pair carries FALLBACK *)
Definition QOS_DEFAULT : Z := 4.
Definition root_qos (i : Z) : Z := i / 2 + 1.
Definition root_overcommit (i : Z) : bool := i mod 2 =? 1.
Definition root_priority (i : Z) : Z :=
  let flags := Z.lor (if root_qos i =? QOS_DEFAULT then PRI_FLAG_FALLBACK else 0) (if root_overcommit i then PRI_FLAG_OVERCOMMIT else 0) in
  Z.lor flags (if nz (Z.land flags PRI_FLAG_FALLBACK) then priority_make_fallback (root_qos i) else priority_make (root_qos i) 0).

(* ---- dq_state / dq_atomic_flags constants (queue_internal.h) *)
Definition ST_WIDTH_FULL : Z := 4096.
Definition ST_WIDTH_SHIFT : Z := 41.
Definition ST_INACTIVE : Z := 72057594037927936.
Definition ST_NEEDS_ACTIVATION : Z := 36028797018963968.
Definition ST_ROLE_BASE_ANON : Z := 68719476736.
Definition DQF_AUTORELEASE_ALWAYS : Z := 65536.
Definition DQF_AUTORELEASE_NEVER : Z := 131072.
Definition DQF_LABEL_NEEDS_FREE : Z := 2097152.
Definition DQF_MUTABLE : Z := 4194304.

(* ---- the target passed to the creation *)
Inductive tgt :=
| TNull                    (* NULL = DISPATCH_TARGET_QUEUE_DEFAULT *)
| TRoot (i : Z)            (* &_dispatch_root_queues[i]: dx_type == DISPATCH_QUEUE_GLOBAL_ROOT_TYPE *)
| TLane (id : Z)           (* any queue with a do_targetq: serial / concurrent lanes, the main queue, workloops, runloop queues *)
| TOther (id : Z).         (* no do_targetq and not a global root: a pthread root queue *)

Record created := {
  c_target : Z;       (* do_targetq: root_queue_addr i for a root queue, the id given for TLane / TOther *)
  c_priority : Z;     (* dq_priority *)
  c_width : Z;        (* dq_width *)
  c_state : Z;        (* dq_state *)
  c_dqf : Z;          (* dq_atomic_flags *)
  c_label : Z         (* what dq_label points to: the label passed (a private copy of it: DQF_LABEL_NEEDS_FREE) *)
}.

Definition root_index_of (addr : Z) : Z := addr - 4096.       (* inverse of Gen_qos.root_queue_addr *)
Definition is_root_addr (addr : Z) : bool := (4096 <=? addr) && (addr <? 4096 + DISPATCH_ROOT_QUEUE_COUNT).

(* _dispatch_queue_priority_inherit_from_target as called at creation (its return value is ignored there) *)
Definition inherit_priority (pri tq : Z) : Z :=
  if manually_selected pri then pri
  else if is_root_addr tq then Z.lor (root_priority (root_index_of tq)) PRI_FLAG_INHERITED
  else if nz (Z.land pri PRI_FLAG_INHERITED)
       then Z.land (Z.land pri (not32 PRI_FALLBACK_QOS_MASK)) (not32 PRI_FLAG_FALLBACK)
       else pri.

(* None = DISPATCH_CLIENT_CRASH *)
Definition create_with_target (label a : Z) (t : tgt) (legacy : bool) : option created :=
  let i := to_info a in
  (* Step 1: normalise (qos, overcommit, tq) *)
  let qos := clamp_qos (qos i) in                        (* !HAVE_PTHREAD_WORKQUEUE_QOS: 6 -> 5, 1 -> 2; also stored back in dqai *)
  let oc := overcommit i in                              (* 0 unspecified, 1 enabled, 2 disabled *)
  if nz oc && (match t with TLane _ => true | _ => false end) then None      (* overcommit and a non-global target queue *)
  else
  let step :=                                            (* Some (overcommit', qos used to pick a root, tq or 0) *)
    match t with
    | TRoot r =>
        Some ((if oc =? 0 then (if root_overcommit r then 1 else 2) else oc),
              (if qos =? 0 then priority_qos (root_priority r) else qos), 0)
    | TOther id => if nz oc then None else Some (oc, qos, id)
    | TLane id => Some ((if oc =? 0 then (if concurrent i then 2 else 1) else oc), qos, id)
    | TNull => Some ((if oc =? 0 then (if concurrent i then 2 else 1) else oc), qos, 0)
    end in
  match step with
  | None => None
  | Some (oc', qsel, tq0) =>
      let tq := if nz tq0 then tq0 else f_dispatch_get_root_queue (if qsel =? 0 then QOS_DEFAULT else qsel) (b2z (oc' =? 1)) in
      (* Step 2: initialise *)
      let legacy' := legacy && negb (inactive i || nz (autorelease i)) in
      let dqf := Z.lor (Z.lor (if legacy' then DQF_MUTABLE else 0)
                              (if autorelease i =? 2 then DQF_AUTORELEASE_NEVER else if autorelease i =? 1 then DQF_AUTORELEASE_ALWAYS else 0))
                       (if nz label then DQF_LABEL_NEEDS_FREE else 0) in
      let width := if concurrent i then DISPATCH_QUEUE_WIDTH_MAX else 1 in
      let state0 := Z.lor (Z.shiftl (ST_WIDTH_FULL - width) ST_WIDTH_SHIFT) (if inactive i then ST_INACTIVE + ST_NEEDS_ACTIVATION else 0) in
      let pri0 := Z.lor (priority_make qos (relpri i)) (if oc' =? 1 then PRI_FLAG_OVERCOMMIT else 0) in
      Some {| c_target := tq;
              c_priority := if inactive i then pri0 else inherit_priority pri0 tq;
              c_width := width;
              (* _dispatch_lane_inherit_wlh_from_target: role BASE_ANON under a root queue (no kevent workloops here), INNER otherwise *)
              c_state := if inactive i then state0 else if is_root_addr tq then Z.lor state0 ST_ROLE_BASE_ANON else state0;
              c_dqf := Z.lor dqf width;                  (* dqf |= DQF_WIDTH(width) *)
              c_label := label |}
  end.

(* ---- the getters *)
Definition get_label (c : created) : Z := c_label c.
Definition get_qos_class (c : created) : Z * Z :=          (* (class, *relpri_ptr) *)
  let q := priority_qos (c_priority c) in
  (f_dispatch_qos_to_qos_class q, if nz q then priority_relpri (c_priority c) else 0).
Definition is_inactive (c : created) : bool := nz (f_dq_state_is_inactive (c_state c)).
Definition autorelease_bits (c : created) : Z := Z.land (c_dqf c) (DQF_AUTORELEASE_ALWAYS + DQF_AUTORELEASE_NEVER).

(* one line of the correspondence (harness/c18_create.c): status 0 = created, 4 = crashed (SIGILL) *)
Definition create_line (label a : Z) (t : tgt) (legacy : bool) : list Z :=
  match create_with_target label a t legacy with
  | None => [4]
  | Some c => let '(cls, rp) := get_qos_class c in
              [0; b2z (get_label c =? label); b2z (nz (Z.land (c_dqf c) DQF_LABEL_NEEDS_FREE)); cls; rp; c_target c; c_width c;
               b2z (is_inactive c); autorelease_bits c; c_state c; c_dqf c; c_priority c]
  end.
Definition priority_consts : list Z :=
  [PRI_RELPRI_MASK; PRI_QOS_MASK; PRI_QOS_SHIFT; PRI_REQUESTED_MASK; PRI_FALLBACK_QOS_MASK; PRI_FALLBACK_QOS_SHIFT; PRI_FLAG_OVERCOMMIT;
   PRI_FLAG_FALLBACK; PRI_FLAG_FLOOR; PRI_FLAG_INHERITED; ST_WIDTH_FULL; ST_WIDTH_SHIFT; ST_INACTIVE; ST_NEEDS_ACTIVATION; ST_ROLE_BASE_ANON;
   DQF_AUTORELEASE_ALWAYS; DQF_AUTORELEASE_NEVER; DQF_LABEL_NEEDS_FREE; DQF_MUTABLE].
Definition root_priorities : list Z := map root_priority [0; 1; 2; 3; 4; 5; 6; 7; 8; 9; 10; 11].

(* ---- specification side: what a created queue must report, in terms of the attribute's components only (no word is computed).
   None = the creation is refused (DISPATCH_CLIENT_CRASH): an overcommit attribute together with a target that is not a global root.
   Some [class; relative priority; target; width; inactive; autorelease bits]:
   * target: the queue given when it is not a root queue; otherwise the root queue of (attribute QoS after the platform clamp, else the
     QoS of the root queue given, else DEFAULT) x (attribute overcommit, else the overcommit of the root queue given, else: serial queues
     overcommit, concurrent ones do not) — never NULL;
   * class: the attribute's class after the clamp; when the attribute has none: the class of the root queue the queue ends up on, unless
     that is a DEFAULT root queue, the queue targets another queue (nothing is inherited from non-root targets) or it is still inactive
     (inheritance happens at activation): then QOS_CLASS_UNSPECIFIED;
   * relative priority: the attribute's when it has a QoS, else 0. *)
Definition spec_report (a : Z) (t : tgt) : option (list Z) :=
  let i := to_info a in
  let q := clamp_qos (qos i) in
  if nz (overcommit i) && (match t with TLane _ | TOther _ => true | _ => false end) then None else
  let oc_on := if overcommit i =? 1 then true else if overcommit i =? 2 then false
               else match t with TRoot r => root_overcommit r | _ => negb (concurrent i) end in
  let root_of := fun qq : Z => root_queue_addr (2 * (qq - 1) + b2z oc_on) in
  let target := match t with
                | TLane id | TOther id => id
                | TNull => root_of (if q =? 0 then QOS_DEFAULT else q)
                | TRoot r => root_of (if q =? 0 then root_qos r else q)
                end in
  let inherited := if nz q then q
                   else if inactive i then 0
                   else match t with
                        | TLane _ | TOther _ => 0
                        | TNull => 0                                   (* a DEFAULT root queue *)
                        | TRoot r => if root_qos r =? QOS_DEFAULT then 0 else root_qos r
                        end in
  Some [class_of_qos inherited; (if nz q then relpri i else 0); target; (if concurrent i then DISPATCH_QUEUE_WIDTH_MAX else 1);
        b2z (inactive i);
        (if autorelease i =? 2 then DQF_AUTORELEASE_NEVER else if autorelease i =? 1 then DQF_AUTORELEASE_ALWAYS else 0)].
Definition observed_report (c : created) : list Z :=
  [fst (get_qos_class c); snd (get_qos_class c); c_target c; c_width c; b2z (is_inactive c); autorelease_bits c].
Fixpoint zlist_eqb' (x y : list Z) : bool :=
  match x, y with [], [] => true | a :: x', b :: y' => (a =? b) && zlist_eqb' x' y' | _, _ => false end.
Definition meets_spec (label a : Z) (t : tgt) (legacy : bool) : bool :=
  match create_with_target label a t legacy, spec_report a t with
  | None, None => true
  | Some c, Some r => zlist_eqb' (observed_report c) r && (c_label c =? label) && negb (c_target c =? 0)
  | _, _ => false
  end.
(* the judge of the correspondence: the library's line against spec_report (status, then the six reports) *)
Definition spec_line (a : Z) (t : tgt) : list Z := match spec_report a t with None => [4] | Some r => 0 :: r end.
