(* RootQ.v — a global (root) queue of the Linux build (DISPATCH_USE_INTERNAL_WORKQUEUE, pthread pool) for any number
   of pushing threads, pool workers and monitor passes, one program point per atomic operation:
     _dispatch_root_queue_push_inline (inline_internal.h:1728) = os_mpsc_push_list: store tl->do_next = NULL,
         xchg(dq_items_tail), store prev->do_next / dq_items_head, poke when the list was empty;
     _dispatch_root_queue_poke / _poke_slow (queue.c:5695-5826): probe of dq_items_tail, dispatch_semaphore_signal on
         dpq_thread_mediator, dgq_pending request (add for overcommit queues, cmpxchg 0->n otherwise), the
         dgq_thread_pool_size loop with `floor`, pthread_create;
     _dispatch_root_queue_drain_one (:5903) with the MEDIATOR marker, _dispatch_root_queue_head_tail_quiesced,
         _dispatch_root_queue_mediator_is_gone, __DISPATCH_ROOT_QUEUE_CONTENDED_WAIT__, the last-item cmpxchg on
         the tail, os_mpsc_get_next / _dispatch_wait_for_enqueuer, the re-poke;
     _dispatch_worker_thread (:6210): dec dgq_pending, drain, dispatch_semaphore_wait(5 s), exit: inc pool size, poke;
     the monitor (event/workqueue.c:259) is a client that calls poke(dq, 1, floor); its decision is `mon_pass`.
   Offsets / LONG_MIN / INT_MAX / WORKQ_MAX come from Gen_rootq (regenerated from the source on every run).
   Abstractions (stated in the evidence):
   - spin counts and sleep times of the contended wait are a choice: the wait may evaluate its predicate any number of
     times, marks dgq_pending at any moment and may give up at any moment after that;
   - sem_timedwait may time out at any moment; pthread_create eventually succeeds (the retry loop is not a step);
   - one item per push (hd == tl, n == 1: every caller except dispatch_apply's batch push);
   - an item is pushed only while it is not enqueued and not being pushed by another thread (allocator / the lane
     ENQUEUED protocol): enabling condition of the first step of a push;
   - no successor where the C code would crash or wrap: dsema_value at LONG_MAX/LONG_MIN, dgq_pending at INT_MAX,
     "Pending thread request underflow". *)
From Coq Require Import ZArith Bool List.
From Verif Require Import Word Conc Gen_consts Gen_fields Gen_rootq.
Import ListNotations.
Local Open Scope Z_scope.

Definition MED := 18446744073709551615.          (* DISPATCH_ROOT_QUEUE_MEDIATOR: the all-ones pointer *)
(* recorder objects: 1 = the queue structure, 2 = [&dsema_value, &dsema_sema + 1) of dpq_thread_mediator,
   3 = the do_next field of an item (offset = the item's address) *)
Definition OBJ_Q := 1.
Definition OBJ_SEM := 2.
Definition OBJ_NEXT := 3.
Definition OFF_TAIL := RQ_OFF_TAIL.
Definition OFF_POOL := RQ_OFF_POOL.
Definition OFF_HEAD := RQ_OFF_HEAD.
Definition OFF_PEND := RQ_OFF_PEND.
Definition OFF_VALUE := 0.
Definition OFF_SEMA := RQ_OFF_SEMA.
Definition MO_PLAIN := -1.          (* a plain (non-atomic) read: not reported by the hook *)
Definition DVX_CREATE := 110.       (* pthread_create succeeded: ea = the new thread (not reported by the hook) *)
Definition OP_PUSH := 0.            (* DVU_CALL ea: dispatch_async_f & co. reaching _dispatch_root_queue_push *)
Definition OP_MON := 1.             (* DVU_CALL ea: a monitor pass decided to poke; eb = floor *)
Definition FLOOR_B := 536870912.    (* -2^29 <= floor <= 0: no int overflow in t_count - floor *)

Definition is_item (x : Z) : bool := (0 <? x) && (x <? MED).
(* the floors the code passes are 0 (every poke of the queue code), target - WORKQ_MAX_TRACKED_TIDS and
   max (-target, target - WORKQ_MAX_TRACKED_TIDS) (the monitor): never positive on machines with at most 255 cpus *)
Definition floor_ok (f : Z) : bool := (- FLOOR_B <=? f) && (f <=? 0).

Definition ev_at (e : event) (k ord obj off : Z) : bool :=
  (ek e =? k) && (eord e =? ord) && (eobj e =? obj) && (eoff e =? off).

(* client code runs either on a thread that is not a pool worker, or inside the callout of item h on a worker *)
Inductive ctx := COut | CIn (h : Z).
(* where _dispatch_root_queue_poke returns to *)
Inductive kont :=
| KClient (c : ctx)      (* push_inline's tail call / the monitor: back in client code *)
| KGot (h : Z)           (* drain_one line 5956: return head *)
| KNull                  (* contended wait gave up: drain_one returns NULL, the drain loop ends *)
| KExit.                 (* _dispatch_worker_thread line 6273: the thread ends *)

Inductive pc :=
| PNone                                  (* no such thread (not yet created / exited / never called) *)
| PClient (c : ctx)
(* _dispatch_root_queue_push_inline *)
| PPushCall (c : ctx)                    (* os_mpsc_push_update_tail: store tl->do_next = NULL next *)
| PPushXchg (c : ctx) (x : Z)            (* xchg(dq_items_tail, x, release) next *)
| PPushLink (c : ctx) (x prev : Z)       (* os_mpsc_push_update_prev: store prev->do_next / dq_items_head next *)
(* _dispatch_root_queue_poke(dq, n, floor) *)
| PPokeProbe (k : kont) (n floor : Z)    (* _dispatch_queue_class_probe: load dq_items_tail, seq_cst *)
| PSigInc (k : kont) (rem floor : Z)     (* dispatch_semaphore_signal: inc dsema_value, release *)
| PSigPost (k : kont) (rem floor : Z)    (* _dispatch_semaphore_signal_slow: sem_post *)
| PPendReq (k : kont) (rem floor : Z)    (* add / cmpxchg(0 -> rem) on dgq_pending *)
| PPoolLoad (k : kont) (rem floor : Z)   (* t_count = load dgq_thread_pool_size, seq_cst *)
| PPoolLoop (k : kont) (rem floor tc : Z) (* top of the do-loop: sub dgq_pending / return / cmpxchgvw pool size *)
| PCreate (k : kont) (rem : Z)           (* pthread_create loop *)
(* _dispatch_worker_thread *)
| PWStart                                (* dec dgq_pending *)
| PDrainXchg                             (* drain_one start: xchg(dq_items_head, MEDIATOR) *)
| PDrainCasNull                          (* head was NULL: cmpxchg(dq_items_head, MEDIATOR, NULL) *)
| PDrainTail                             (* plain read of dq_items_tail (line 5920) *)
| PCwEval (q pd : bool)                  (* contended wait: evaluate the predicate (q: quiesced / mediator_is_gone); pd: dgq_pending marked *)
| PCwEvalT (pd : bool) (hv : Z)          (* quiesced: head read, load dq_items_tail next *)
| PCwOut (status : Z)                    (* out: dec dgq_pending *)
| PDrainNext (h : Z)                     (* plain read next = head->do_next (line 5941) *)
| PDrainStoreNull (h : Z)                (* store dq_items_head = NULL *)
| PDrainCasTail (h : Z)                  (* cmpxchg(dq_items_tail, head, NULL, release) *)
| PDrainWaitNext (h : Z) (first : bool)  (* os_mpsc_get_next: load do_next (acquire, then relaxed spins) *)
| PDrainStoreHead (h nx : Z)             (* store dq_items_head = next *)
| PGot (h : Z)                           (* drain_one returned h: _dispatch_continuation_pop_inline *)
| PSemDec                                (* dispatch_semaphore_wait(mediator, 5 s): dec dsema_value, acquire *)
| PSemTimed                              (* inside _dispatch_sema4_timedwait *)
| PSemLoad                               (* timed out: plain read orig = dsema_value *)
| PSemUndo (orig : Z)                    (* while (orig < 0) cmpxchgvw(orig -> orig + 1); else sem_wait *)
| PSemBlocked                            (* inside sem_wait (draining the wakeup) *)
| PExitInc.                              (* timed out: inc dgq_thread_pool_size, release *)

Definition kret (k : kont) : pc :=
  match k with KClient c => PClient c | KGot h => PGot h | KNull => PSemDec | KExit => PNone end.

Definition ST_WAIT := 0.
Definition ST_READY := 1.
Definition ST_ABORT := 2.
(* _dispatch_root_queue_head_tail_quiesced *)
Definition quiesced_status (hv tv : Z) : Z :=
  if Bool.eqb (hv =? 0) (tv =? 0) then (if tv =? 0 then ST_ABORT else ST_READY) else ST_WAIT.
(* after the contended wait: READY -> goto start; otherwise drain_one returns NULL and the worker goes to the semaphore *)
Definition cw_resume (status : Z) : pc := if status =? ST_READY then PDrainXchg else PSemDec.
Definition cw_after (pd : bool) (status : Z) : pc := if pd then PCwOut status else cw_resume status.
(* can_request = t_count < floor ? 0 : t_count - floor *)
Definition can_request (tc floor : Z) : Z := if tc <? floor then 0 else tc - floor.

Definition call_entry (c : ctx) (e : event) : option pc :=
  if ea e =? OP_PUSH then Some (PPushCall c)
  else if ea e =? OP_MON then (if floor_ok (s64 (eb e)) then Some (PPokeProbe (KClient c) 1 (s64 (eb e))) else None)
  else None.

(* the per-thread automaton; oc = the queue is an overcommit queue (DISPATCH_PRIORITY_FLAG_OVERCOMMIT) *)
Definition tstep (oc : bool) (p : pc) (e : event) : option pc :=
  match p with
  | PNone => if ev_kind e DVU_CALL then call_entry COut e else None
  | PClient c =>
      if ev_kind e DVU_CALL then call_entry c e
      else if ev_kind e DVU_RET then Some (PClient c)
      else match c with
           | CIn _ => if ev_kind e DVU_CALLOUT_END then Some PDrainXchg else None
           | COut => None
           end
  | PPushCall c =>
      if (ek e =? DV_STORE) && (eord e =? MO_RELAXED) && (eobj e =? OBJ_NEXT) && (eb e =? 0) && is_item (eoff e)
      then Some (PPushXchg c (eoff e)) else None
  | PPushXchg c x =>
      if ev_at e DV_XCHG MO_RELEASE OBJ_Q OFF_TAIL && (eb e =? x) then Some (PPushLink c x (ea e)) else None
  | PPushLink c x prev =>
      if prev =? 0 then
        if ev_at e DV_STORE MO_RELAXED OBJ_Q OFF_HEAD && (eb e =? x) then Some (PPokeProbe (KClient c) 1 0) else None
      else
        if ev_at e DV_STORE MO_RELAXED OBJ_NEXT prev && (eb e =? x) then Some (PClient c) else None
  | PPokeProbe k n floor =>
      if ev_at e DV_LOAD MO_SEQ_CST OBJ_Q OFF_TAIL then Some (if ea e =? 0 then kret k else PSigInc k n floor) else None
  | PSigInc k rem floor =>
      if ev_at e DV_ADD MO_RELEASE OBJ_SEM OFF_VALUE && (eb e =? 1) then
        let r := s64 (s64 (ea e) + 1) in
        if r >? 0 then Some (PPendReq k rem floor)               (* signal returned 0: nobody was waiting *)
        else if r =? RQ_LONG_MIN then None                        (* DISPATCH_CLIENT_CRASH *)
        else Some (PSigPost k rem floor)
      else None
  | PSigPost k rem floor =>
      if ev_at e DV_SEM_POST 0 OBJ_SEM OFF_SEMA then Some (if rem - 1 =? 0 then kret k else PSigInc k (rem - 1) floor) else None
  | PPendReq k rem floor =>
      if oc then
        if ev_at e DV_ADD MO_RELAXED OBJ_Q OFF_PEND && (s32 (eb e) =? rem) then Some (PPoolLoad k rem floor) else None
      else
        if ev_at e DV_CAS MO_RELAXED OBJ_Q OFF_PEND && (s32 (eb e) =? rem)
        then Some (if eok e =? 1 then PPoolLoad k rem floor else kret k) else None
  | PPoolLoad k rem floor =>
      if ev_at e DV_LOAD MO_SEQ_CST OBJ_Q OFF_POOL then Some (PPoolLoop k rem floor (s32 (ea e))) else None
  | PPoolLoop k rem floor tc =>
      let can := can_request tc floor in
      if rem >? can then
        if ev_at e DV_SUB MO_RELAXED OBJ_Q OFF_PEND && (s32 (eb e) =? rem - can)
        then Some (if can =? 0 then kret k else PPoolLoop k can floor tc) else None
      else if rem =? 0 then None
      else
        if ev_at e DV_CASW MO_ACQUIRE OBJ_Q OFF_POOL && (s32 (eb e) =? tc - rem) && (negb (eok e =? 1) || (s32 (ea e) =? tc))
        then Some (if eok e =? 1 then PCreate k rem else PPoolLoop k rem floor (s32 (ea e))) else None
  | PCreate k rem =>
      if ek e =? DVX_CREATE then Some (if rem - 1 =? 0 then kret k else PCreate k (rem - 1)) else None
  | PWStart =>
      if ev_at e DV_SUB MO_RELAXED OBJ_Q OFF_PEND && (s32 (eb e) =? 1) then
        if s32 (ea e) - 1 <? 0 then None                          (* "Pending thread request underflow" *)
        else Some PDrainXchg
      else None
  | PDrainXchg =>
      if ev_at e DV_XCHG MO_RELAXED OBJ_Q OFF_HEAD && (eb e =? MED) then
        Some (if ea e =? 0 then PDrainCasNull else if ea e =? MED then PCwEval false false else PDrainNext (ea e))
      else None
  | PDrainCasNull =>
      if ev_at e DV_CAS MO_RELAXED OBJ_Q OFF_HEAD && (eb e =? 0) then Some (if eok e =? 1 then PDrainTail else PDrainXchg)
      else None
  | PDrainTail =>
      if ev_at e DV_LOAD MO_PLAIN OBJ_Q OFF_TAIL then Some (if ea e =? 0 then PSemDec else PCwEval true false) else None
  | PCwEval q pd =>
      if ev_at e DV_LOAD MO_RELAXED OBJ_Q OFF_HEAD then
        (if q then Some (PCwEvalT pd (ea e))
         else Some (if ea e =? MED then PCwEval q pd else cw_after pd ST_READY))
      else if ev_at e DV_ADD MO_RELAXED OBJ_Q OFF_PEND && (s32 (eb e) =? 1) && negb pd then Some (PCwEval q true)
      else if ev_at e DV_SUB MO_RELAXED OBJ_Q OFF_PEND && (s32 (eb e) =? 1) && pd then Some (PPokeProbe KNull 1 0)
      else None
  | PCwEvalT pd hv =>
      if ev_at e DV_LOAD MO_RELAXED OBJ_Q OFF_TAIL then
        let st := quiesced_status hv (ea e) in
        Some (if st =? ST_WAIT then PCwEval true pd else cw_after pd st)
      else None
  | PCwOut st =>
      if ev_at e DV_SUB MO_RELAXED OBJ_Q OFF_PEND && (s32 (eb e) =? 1) then Some (cw_resume st) else None
  | PDrainNext h =>
      if ev_at e DV_LOAD MO_PLAIN OBJ_NEXT h then Some (if ea e =? 0 then PDrainStoreNull h else PDrainStoreHead h (ea e))
      else None
  | PDrainStoreNull h =>
      if ev_at e DV_STORE MO_RELAXED OBJ_Q OFF_HEAD && (eb e =? 0) then Some (PDrainCasTail h) else None
  | PDrainCasTail h =>
      if ev_at e DV_CAS MO_RELEASE OBJ_Q OFF_TAIL && (eb e =? 0) then Some (if eok e =? 1 then PGot h else PDrainWaitNext h true)
      else None
  | PDrainWaitNext h first =>
      if ev_at e DV_LOAD (if first then MO_ACQUIRE else MO_RELAXED) OBJ_NEXT h
      then Some (if ea e =? 0 then PDrainWaitNext h false else PDrainStoreHead h (ea e)) else None
  | PDrainStoreHead h nx =>
      if ev_at e DV_STORE MO_RELAXED OBJ_Q OFF_HEAD && (eb e =? nx) then Some (PPokeProbe (KGot h) 1 0) else None
  | PGot h => if ev_kind e DVU_CALLOUT_BEGIN then Some (PClient (CIn h)) else None
  | PSemDec =>
      if ev_at e DV_SUB MO_ACQUIRE OBJ_SEM OFF_VALUE && (eb e =? 1) then
        Some (if s64 (s64 (ea e) - 1) >=? 0 then PDrainXchg else PSemTimed)
      else None
  | PSemTimed =>
      if ev_at e DV_SEM_TIMEDWAIT_RET 0 OBJ_SEM OFF_SEMA then Some (if eb e =? 0 then PDrainXchg else PSemLoad) else None
  | PSemLoad => if ev_at e DV_LOAD MO_PLAIN OBJ_SEM OFF_VALUE then Some (PSemUndo (s64 (ea e))) else None
  | PSemUndo orig =>
      if orig <? 0 then
        if ev_at e DV_CASW MO_RELAXED OBJ_SEM OFF_VALUE && (s64 (eb e) =? orig + 1) && (negb (eok e =? 1) || (s64 (ea e) =? orig))
        then Some (if eok e =? 1 then PExitInc else PSemUndo (s64 (ea e))) else None
      else
        if ev_at e DV_SEM_WAIT 0 OBJ_SEM OFF_SEMA then Some PSemBlocked else None
  | PSemBlocked => if ev_at e DV_SEM_WAIT_RET 0 OBJ_SEM OFF_SEMA && (eb e =? 0) then Some PDrainXchg else None
  | PExitInc =>
      if ev_at e DV_ADD MO_RELEASE OBJ_Q OFF_POOL && (s32 (eb e) =? 1) then Some (PPokeProbe KExit 1 0) else None
  end.

(* ---- hidden steps (plain reads, pthread_create) for trace conformance: the value a plain read returned is
   inferred from the next visible event; RootQ_proofs.tstep_vis_sound: every step of tstep_vis is at most one
   hidden step of tstep followed by the visible step of tstep. *)
Definition tstep_vis (oc : bool) (p : pc) (e : event) : option pc :=
  match p with
  | PDrainTail =>
      if ev_at e DV_SUB MO_ACQUIRE OBJ_SEM OFF_VALUE then tstep oc PSemDec e else tstep oc (PCwEval true false) e
  | PDrainNext h =>
      if ev_at e DV_STORE MO_RELAXED OBJ_Q OFF_HEAD then
        (if eb e =? 0 then tstep oc (PDrainStoreNull h) e else tstep oc (PDrainStoreHead h (eb e)) e)
      else None
  | PSemLoad =>
      if ev_kind e DV_CASW then tstep oc (PSemUndo (s64 (s64 (eb e) - 1))) e
      else if ev_kind e DV_SEM_WAIT then tstep oc (PSemUndo 0) e else None
  | PCreate k rem => if rem =? 1 then tstep oc (kret k) e else None
  | _ => tstep oc p e
  end.

(* ---- the atomic sites a program point may execute (kind, field, order); RootQ_proofs.tstep_site: every hook-visible
   atomic event accepted by tstep at p is one of pc_sites p; the lists of the C functions, in program order, are
   concatenations of pc_sites and must equal what src2v reads from the source (the sites_ lemmas of RootQ_proofs) *)
Definition mk_site (k : akind) (f : nat) (o : morder) : site := {| s_kind := k; s_field := f; s_order := o |}.
Definition F_pending : nat := F_dgq_pending.
Definition F_pool : nat := F_dgq_thread_pool_size.
Definition pc_sites (oc : bool) (p : pc) : list site :=
  match p with
  | PPushCall _ => [ mk_site KStore F_do_next Relaxed ]
  | PPushXchg _ _ => [ mk_site KXchg F_dq_items_tail Release ]
  | PPushLink _ _ prev => [ if prev =? 0 then mk_site KStore F_dq_items_head Relaxed else mk_site KStore F_do_next Relaxed ]
  | PPokeProbe _ _ _ => [ mk_site KLoad F_dq_items_tail SeqCst ]
  | PSigInc _ _ _ => [ mk_site KAdd F_dsema_value Release ]
  | PPendReq _ _ _ => [ if oc then mk_site KAdd F_pending Relaxed else mk_site KCas F_pending Relaxed ]
  | PPoolLoad _ _ _ => [ mk_site KLoad F_pool SeqCst ]
  | PPoolLoop _ _ _ _ => [ mk_site KSub F_pending Relaxed; mk_site KCasWeak F_pool Acquire ]
  | PWStart => [ mk_site KSub F_pending Relaxed ]
  | PDrainXchg => [ mk_site KXchg F_dq_items_head Relaxed ]
  | PDrainCasNull => [ mk_site KCas F_dq_items_head Relaxed ]
  | PCwEval _ _ => [ mk_site KLoad F_dq_items_head Relaxed; mk_site KAdd F_pending Relaxed; mk_site KSub F_pending Relaxed ]
  | PCwEvalT _ _ => [ mk_site KLoad F_dq_items_tail Relaxed ]
  | PCwOut _ => [ mk_site KSub F_pending Relaxed ]
  | PDrainStoreNull _ => [ mk_site KStore F_dq_items_head Relaxed ]
  | PDrainCasTail _ => [ mk_site KCas F_dq_items_tail Release ]
  | PDrainWaitNext _ first => [ if first then mk_site KLoad F_do_next Acquire else mk_site KLoad F_ptr Relaxed ]
  | PDrainStoreHead _ _ => [ mk_site KStore F_dq_items_head Relaxed ]
  | PSemDec => [ mk_site KSub F_dsema_value Acquire ]
  | PSemUndo _ => [ mk_site KCasWeak F_dsema_value Relaxed ]
  | PExitInc => [ mk_site KAdd F_pool Release ]
  | _ => []
  end.
Definition kind_code (k : akind) : Z :=
  match k with KLoad => DV_LOAD | KStore => DV_STORE | KXchg => DV_XCHG | KCas => DV_CAS | KCasWeak => DV_CASW | KAdd => DV_ADD
  | KSub => DV_SUB | KAnd => DV_AND | KOr => DV_OR | KXor => DV_XOR | KFence => DV_FENCE end.
Definition mo_code (o : morder) : Z :=
  match o with Relaxed => 0 | Consume => 1 | Acquire => 2 | Release => 3 | AcqRel => 4 | SeqCst => 5 end.
(* where the recorder sees a field: (object, offset); do_next / the pointer waited for by _dispatch_wait_for_enqueuer
   are the do_next field of some item *)
Definition field_at (f : nat) (e : event) : bool :=
  if Nat.eqb f F_dq_items_tail then (eobj e =? OBJ_Q) && (eoff e =? OFF_TAIL)
  else if Nat.eqb f F_dq_items_head then (eobj e =? OBJ_Q) && (eoff e =? OFF_HEAD)
  else if Nat.eqb f F_pending then (eobj e =? OBJ_Q) && (eoff e =? OFF_PEND)
  else if Nat.eqb f F_pool then (eobj e =? OBJ_Q) && (eoff e =? OFF_POOL)
  else if Nat.eqb f F_dsema_value then (eobj e =? OBJ_SEM) && (eoff e =? OFF_VALUE)
  else if Nat.eqb f F_do_next || Nat.eqb f F_ptr then eobj e =? OBJ_NEXT
  else false.
Definition site_ok (e : event) (st : site) : bool :=
  (ek e =? kind_code (s_kind st)) && (eord e =? mo_code (s_order st)) && field_at (s_field st) e.
(* an event the hook reports for an os_atomic_* operation *)
Definition is_atomic_ev (e : event) : bool := (1 <=? ek e) && (ek e <=? 11) && negb (eord e =? MO_PLAIN).

Definition any_ctx := COut.
Definition any_kont := KNull.
Definition model_sites_push : list site :=
  pc_sites false (PPushCall any_ctx) ++ pc_sites false (PPushXchg any_ctx 1) ++ pc_sites false (PPushLink any_ctx 1 1) ++
  pc_sites false (PPushLink any_ctx 1 0).
Definition model_sites_poke : list site := pc_sites false (PPokeProbe any_kont 1 0).
Definition model_sites_poke_slow : list site :=
  pc_sites true (PPendReq any_kont 1 0) ++ pc_sites false (PPendReq any_kont 1 0) ++ pc_sites false (PPoolLoad any_kont 1 0) ++
  pc_sites false (PPoolLoop any_kont 1 0 0).
Definition model_sites_mediator_is_gone : list site := firstn 1 (pc_sites false (PCwEval false false)).
Definition model_sites_quiesced : list site := firstn 1 (pc_sites false (PCwEval true false)) ++ pc_sites false (PCwEvalT false 0).
Definition model_sites_cwait_pending : list site := skipn 1 (pc_sites false (PCwEval true false)).
Definition model_sites_cwait_out : list site := pc_sites false (PCwOut 1).
Definition model_sites_drain_one : list site :=
  pc_sites false PDrainXchg ++ pc_sites false PDrainCasNull ++ pc_sites false (PDrainStoreNull 1) ++ pc_sites false (PDrainCasTail 1) ++
  pc_sites false (PDrainWaitNext 1 true) ++ pc_sites false (PDrainStoreHead 1 1).
Definition model_sites_wait_for_enqueuer : list site := pc_sites false (PDrainWaitNext 1 false).
Definition model_sites_worker : list site := pc_sites false PWStart ++ pc_sites false PExitInc.
Definition model_sites_sem_signal : list site := pc_sites false (PSigInc any_kont 1 0).
Definition model_sites_sem_wait : list site := pc_sites false PSemDec ++ pc_sites false (PSemUndo 0).

(* ------------------------------------------------------------------ global model *)
Record gst := {
  head : Z;                  (* dq_items_head: 0, MED or an item *)
  tail : Z;                  (* dq_items_tail: 0 or an item *)
  nxt : Z -> Z;              (* do_next of every object *)
  pend : Z;                  (* dgq_pending (int) *)
  pool : Z;                  (* dgq_thread_pool_size (int): remaining capacity, negative when the monitor oversubscribed *)
  sval : Z;                  (* dsema_value of dpq_thread_mediator (long) *)
  ksem : Z;                  (* count of the kernel semaphore *)
  pcs : Z -> pc;
  seen : list Z;             (* ghost: finite support of pcs *)
  chain : list Z;            (* ghost: items from the oldest not yet detached to the newest, in tail-exchange order *)
  holder : option Z;         (* ghost: the worker that claimed the first item of chain and has not detached it yet *)
  hstore : option Z;         (* ghost: the pusher whose store to dq_items_head is in flight *)
  owner : Z -> option Z;     (* ghost: item -> the thread pushing it (from the do_next store to the link store) *)
  hpush : list (Z * Z);      (* ghost: history of (item, pusher) in tail-exchange order *)
  hpop : list (Z * Z);       (* ghost: history of (item, worker) in claim order (xchg on the head returned the item) *)
  runs : list (Z * Z);       (* ghost: history of (item, worker) callouts begun *)
  pool0 : Z                  (* ghost: the pool size the queue was initialised with *)
}.

Definition init_state (p0 : Z) : gst :=
  {| head := 0; tail := 0; nxt := fun _ => 0; pend := 0; pool := p0; sval := 0; ksem := 0; pcs := fun _ => PNone;
     seen := []; chain := []; holder := None; hstore := None; owner := fun _ => None; hpush := []; hpop := [];
     runs := []; pool0 := p0 |}.
(* _dispatch_root_queue_init_pthread_pool: min(DISPATCH_WORKQ_MAX_PTHREAD_COUNT, active cpus | requested size) *)
Definition valid_init (p0 : Z) : Prop := 1 <= p0 <= RQ_MAX_PTHREAD_COUNT.

Definition memz (t : Z) (l : list Z) : bool := existsb (Z.eqb t) l.
Definition add_seen (t : Z) (l : list Z) : list Z := if memz t l then l else t :: l.

Definition set_pc (s : gst) (t : Z) (p : pc) : gst :=
  {| head := head s; tail := tail s; nxt := nxt s; pend := pend s; pool := pool s; sval := sval s; ksem := ksem s;
     pcs := upd (pcs s) t p; seen := add_seen t (seen s); chain := chain s; holder := holder s; hstore := hstore s;
     owner := owner s; hpush := hpush s; hpop := hpop s; runs := runs s; pool0 := pool0 s |}.
Definition set_head (s : gst) (v : Z) : gst :=
  {| head := v; tail := tail s; nxt := nxt s; pend := pend s; pool := pool s; sval := sval s; ksem := ksem s;
     pcs := pcs s; seen := seen s; chain := chain s; holder := holder s; hstore := hstore s;
     owner := owner s; hpush := hpush s; hpop := hpop s; runs := runs s; pool0 := pool0 s |}.
Definition set_nxt (s : gst) (x v : Z) : gst :=
  {| head := head s; tail := tail s; nxt := upd (nxt s) x v; pend := pend s; pool := pool s; sval := sval s; ksem := ksem s;
     pcs := pcs s; seen := seen s; chain := chain s; holder := holder s; hstore := hstore s;
     owner := owner s; hpush := hpush s; hpop := hpop s; runs := runs s; pool0 := pool0 s |}.
Definition set_pend (s : gst) (v : Z) : gst :=
  {| head := head s; tail := tail s; nxt := nxt s; pend := v; pool := pool s; sval := sval s; ksem := ksem s;
     pcs := pcs s; seen := seen s; chain := chain s; holder := holder s; hstore := hstore s;
     owner := owner s; hpush := hpush s; hpop := hpop s; runs := runs s; pool0 := pool0 s |}.
Definition set_pool (s : gst) (v : Z) : gst :=
  {| head := head s; tail := tail s; nxt := nxt s; pend := pend s; pool := v; sval := sval s; ksem := ksem s;
     pcs := pcs s; seen := seen s; chain := chain s; holder := holder s; hstore := hstore s;
     owner := owner s; hpush := hpush s; hpop := hpop s; runs := runs s; pool0 := pool0 s |}.
Definition set_sval (s : gst) (v : Z) : gst :=
  {| head := head s; tail := tail s; nxt := nxt s; pend := pend s; pool := pool s; sval := v; ksem := ksem s;
     pcs := pcs s; seen := seen s; chain := chain s; holder := holder s; hstore := hstore s;
     owner := owner s; hpush := hpush s; hpop := hpop s; runs := runs s; pool0 := pool0 s |}.
Definition set_ksem (s : gst) (v : Z) : gst :=
  {| head := head s; tail := tail s; nxt := nxt s; pend := pend s; pool := pool s; sval := sval s; ksem := v;
     pcs := pcs s; seen := seen s; chain := chain s; holder := holder s; hstore := hstore s;
     owner := owner s; hpush := hpush s; hpop := hpop s; runs := runs s; pool0 := pool0 s |}.
Definition set_owner (s : gst) (x : Z) (o : option Z) : gst :=
  {| head := head s; tail := tail s; nxt := nxt s; pend := pend s; pool := pool s; sval := sval s; ksem := ksem s;
     pcs := pcs s; seen := seen s; chain := chain s; holder := holder s; hstore := hstore s;
     owner := upd (owner s) x o; hpush := hpush s; hpop := hpop s; runs := runs s; pool0 := pool0 s |}.
(* the tail exchange of a push by thread t *)
Definition do_push (s : gst) (t x : Z) : gst :=
  {| head := head s; tail := x; nxt := nxt s; pend := pend s; pool := pool s; sval := sval s; ksem := ksem s;
     pcs := pcs s; seen := seen s; chain := chain s ++ [x]; holder := holder s;
     hstore := if tail s =? 0 then Some t else hstore s;
     owner := owner s; hpush := hpush s ++ [(x, t)]; hpop := hpop s; runs := runs s; pool0 := pool0 s |}.
(* the pusher's store to dq_items_head *)
Definition do_head_store (s : gst) (x : Z) : gst :=
  {| head := x; tail := tail s; nxt := nxt s; pend := pend s; pool := pool s; sval := sval s; ksem := ksem s;
     pcs := pcs s; seen := seen s; chain := chain s; holder := holder s; hstore := None;
     owner := upd (owner s) x None; hpush := hpush s; hpop := hpop s; runs := runs s; pool0 := pool0 s |}.
(* the head exchange of a worker t that found item v *)
Definition do_claim (s : gst) (t v : Z) : gst :=
  {| head := MED; tail := tail s; nxt := nxt s; pend := pend s; pool := pool s; sval := sval s; ksem := ksem s;
     pcs := pcs s; seen := seen s; chain := chain s; holder := Some t; hstore := hstore s;
     owner := owner s; hpush := hpush s; hpop := hpop s ++ [(v, t)]; runs := runs s; pool0 := pool0 s |}.
(* the holder detaches its item: the successful tail cmpxchg (new tail 0) or the store of next to the head *)
Definition do_detach (s : gst) (newhead newtail : Z) : gst :=
  {| head := newhead; tail := newtail; nxt := nxt s; pend := pend s; pool := pool s; sval := sval s; ksem := ksem s;
     pcs := pcs s; seen := seen s; chain := tl (chain s); holder := None; hstore := hstore s;
     owner := owner s; hpush := hpush s; hpop := hpop s; runs := runs s; pool0 := pool0 s |}.
Definition do_run (s : gst) (t h : Z) : gst :=
  {| head := head s; tail := tail s; nxt := nxt s; pend := pend s; pool := pool s; sval := sval s; ksem := ksem s;
     pcs := pcs s; seen := seen s; chain := chain s; holder := holder s; hstore := hstore s;
     owner := owner s; hpush := hpush s; hpop := hpop s; runs := runs s ++ [(h, t)]; pool0 := pool0 s |}.
Definition do_create (s : gst) (u : Z) : gst :=
  {| head := head s; tail := tail s; nxt := nxt s; pend := pend s; pool := pool s; sval := sval s; ksem := ksem s;
     pcs := upd (pcs s) u PWStart; seen := add_seen u (seen s); chain := chain s; holder := holder s; hstore := hstore s;
     owner := owner s; hpush := hpush s; hpop := hpop s; runs := runs s; pool0 := pool0 s |}.

Definition guard (b : bool) (s : gst) : option gst := if b then Some s else None.
Definition is_none {A} (o : option A) : bool := match o with None => true | Some _ => false end.
Definition pc_is_none (p : pc) : bool := match p with PNone => true | _ => false end.

(* effect of the step of thread t at its program point on memory, kernel and ghost state (program points aside);
   None = the event is inconsistent with the state, or the step is not enabled *)
Definition effect (oc : bool) (s : gst) (t : Z) (e : event) : option gst :=
  match pcs s t with
  | PNone | PClient _ => Some s
  | PPushCall c =>
      let x := eoff e in
      guard (is_none (owner s x) && negb (memz x (chain s))) (set_owner (set_nxt s x 0) x (Some t))
  | PPushXchg c x => guard (ea e =? tail s) (do_push s t x)
  | PPushLink c x prev =>
      if prev =? 0 then Some (do_head_store s x) else Some (set_owner (set_nxt s prev x) x None)
  | PPokeProbe k n floor => guard (ea e =? tail s) s
  | PSigInc k rem floor => guard (s64 (ea e) =? sval s) (set_sval s (sval s + 1))
  | PSigPost k rem floor => Some (set_ksem s (ksem s + 1))
  | PPendReq k rem floor =>
      if oc then guard ((s32 (ea e) =? pend s) && (pend s + rem <=? RQ_INT_MAX)) (set_pend s (pend s + rem))
      else guard ((s32 (ea e) =? pend s) && Bool.eqb (eok e =? 1) (pend s =? 0))
                 (if eok e =? 1 then set_pend s rem else s)
  | PPoolLoad k rem floor => guard (s32 (ea e) =? pool s) s
  | PPoolLoop k rem floor tc =>
      let can := can_request tc floor in
      if rem >? can then guard (s32 (ea e) =? pend s) (set_pend s (pend s - (rem - can)))
      else guard ((s32 (ea e) =? pool s) && (negb (eok e =? 1) || (pool s =? tc)))
                 (if eok e =? 1 then set_pool s (tc - rem) else s)
  | PCreate k rem =>
      let u := ea e in guard (pc_is_none (pcs s u) && negb (u =? t)) (do_create s u)
  | PWStart => guard (s32 (ea e) =? pend s) (set_pend s (pend s - 1))
  | PDrainXchg =>
      guard (ea e =? head s) (if is_item (ea e) then do_claim s t (ea e) else set_head s MED)
  | PDrainCasNull =>
      guard ((ea e =? head s) && Bool.eqb (eok e =? 1) (head s =? MED)) (if eok e =? 1 then set_head s 0 else s)
  | PDrainTail => guard (ea e =? tail s) s
  | PCwEval q pd =>
      if ek e =? DV_LOAD then guard (ea e =? head s) s
      else if ek e =? DV_ADD then guard ((s32 (ea e) =? pend s) && (pend s + 1 <=? RQ_INT_MAX)) (set_pend s (pend s + 1))
      else guard (s32 (ea e) =? pend s) (set_pend s (pend s - 1))
  | PCwEvalT pd hv => guard (ea e =? tail s) s
  | PCwOut st => guard (s32 (ea e) =? pend s) (set_pend s (pend s - 1))
  | PDrainNext h => guard (ea e =? nxt s h) s
  | PDrainStoreNull h => Some (set_head s 0)
  | PDrainCasTail h =>
      guard ((ea e =? tail s) && Bool.eqb (eok e =? 1) (tail s =? h))
            (if eok e =? 1 then do_detach s (head s) 0 else s)
  | PDrainWaitNext h f => guard (ea e =? nxt s h) s
  | PDrainStoreHead h nx => Some (do_detach s nx (tail s))
  | PGot h => Some (do_run s t h)
  | PSemDec => guard ((s64 (ea e) =? sval s) && (RQ_LONG_MIN <? sval s)) (set_sval s (sval s - 1))
  | PSemTimed => if eb e =? 0 then guard (0 <? ksem s) (set_ksem s (ksem s - 1)) else Some s
  | PSemLoad => guard (s64 (ea e) =? sval s) s
  | PSemUndo orig =>
      if orig <? 0 then
        guard ((s64 (ea e) =? sval s) && (negb (eok e =? 1) || (sval s =? orig)))
              (if eok e =? 1 then set_sval s (orig + 1) else s)
      else Some s
  | PSemBlocked => guard (0 <? ksem s) (set_ksem s (ksem s - 1))
  | PExitInc => guard (s32 (ea e) =? pool s) (set_pool s (pool s + 1))
  end.

Definition gstep (oc : bool) (s : gst) (t : Z) (e : event) : option gst :=
  match tstep oc (pcs s t) e with
  | None => None
  | Some p' => match effect oc s t e with
               | None => None
               | Some s1 => Some (set_pc s1 t p')
               end
  end.

Definition step (oc : bool) (s : gst) (a : Z * event) (s' : gst) : Prop := gstep oc s (fst a) (snd a) = Some s'.
Definition reach (oc : bool) (p0 : Z) : gst -> Prop := reachable (fun s => s = init_state p0) (step oc).

Fixpoint grun (oc : bool) (s : gst) (tr : list (Z * event)) : option gst :=
  match tr with
  | [] => Some s
  | (t, e) :: tr' => match gstep oc s t e with Some s' => grun oc s' tr' | None => None end
  end.

(* items pushed and not yet claimed by a worker *)
Definition unclaimed (s : gst) : list Z := match holder s with Some _ => tl (chain s) | None => chain s end.

(* ------------------------------------------------------------------ counting over the finite support, weights, wake-up tokens
   (used by the invariants of RootQ_pool_proofs / RootQ_wake_proofs and by their boolean versions in RootQR.v) *)
Fixpoint tsum (w : pc -> Z) (f : Z -> pc) (l : list Z) : Z :=
  match l with [] => 0 | u :: l' => w (f u) + tsum w f l' end.
Definition cnt (w : pc -> Z) (s : gst) : Z := tsum w (pcs s) (seen s).


(* ---- weights ---- *)
Definition is_slow (p : pc) : Z := match p with PSemTimed | PSemLoad | PSemUndo _ | PSemBlocked => 1 | _ => 0 end.
Definition is_sigpost (p : pc) : Z := match p with PSigPost _ _ _ => 1 | _ => 0 end.
(* who accounts for one unit of dgq_pending: a poke between its request and the creation of the thread, a created
   thread that has not started, a worker backing off in the contended wait *)
Definition w_pend (p : pc) : Z :=
  match p with
  | PPoolLoad _ _ _ | PPoolLoop _ _ _ _ | PCreate _ _ | PWStart | PCwEval _ true | PCwEvalT true _ | PCwOut _ => 1
  | _ => 0
  end.
Definition ctxw (c : ctx) : Z := match c with CIn _ => 1 | COut => 0 end.
Definition kw (k : kont) : Z := match k with KClient c => ctxw c | KGot _ | KNull => 1 | KExit => 0 end.
(* 1 for a thread of the pool that has not yet given its slot back *)
Definition wk (p : pc) : Z :=
  match p with
  | PNone => 0
  | PClient c | PPushCall c | PPushXchg c _ | PPushLink c _ _ => ctxw c
  | PPokeProbe k _ _ | PSigInc k _ _ | PSigPost k _ _ | PPendReq k _ _ | PPoolLoad k _ _ | PPoolLoop k _ _ _ | PCreate k _ => kw k
  | _ => 1
  end.
(* who accounts for one unit taken from dgq_thread_pool_size: a live pool thread, a pthread_create in flight *)
Definition w_pool (p : pc) : Z := wk p + match p with PCreate _ _ => 1 | _ => 0 end.


(* program points that carry the duty to look at the queue or to wake somebody who will:
   - a pusher whose store to dq_items_head is in flight, then its poke up to the semaphore signal,
   - any poke up to the semaphore signal, a pthread_create in flight,
   - a worker that has started / is inside _dispatch_root_queue_drain_one before it decided to sleep (including the
     contended wait and the holder of the mediator, which re-pokes when it leaves an item behind),
   - a worker that timed out and is about to give its slot back (it pokes afterwards). *)
Definition tok (p : pc) : bool :=
  match p with
  | PPushLink _ _ prev => prev =? 0
  | PPokeProbe _ _ _ | PSigInc _ _ _ | PCreate _ _ | PWStart | PDrainXchg | PDrainCasNull | PDrainTail
  | PCwEval _ _ | PCwEvalT _ _ | PDrainNext _ | PDrainStoreNull _ | PDrainCasTail _ | PDrainWaitNext _ _
  | PDrainStoreHead _ _ | PExitInc => true
  | PCwOut st => st =? ST_READY
  | _ => false
  end.
(* signals held by the pool semaphore: banked in dsema_value, being posted, or posted to the kernel semaphore *)
Definition surplus (s : gst) : Z := Z.max 0 (sval s) + cnt is_sigpost s + ksem s.


(* ------------------------------------------------------------------ the monitor's decision
   _dispatch_workq_monitor_pools (event/workqueue.c:259): one pass over the QoS buckets from high to low.
   A bucket is (probe: dq_items_tail != NULL, num_runnable: registered workers whose /proc state is 'R'). *)
Definition WORKQ_MAX_TRACKED_TIDS := RQ_MAX_PTHREAD_COUNT.
Definition WORKQ_OVERSUBSCRIBE_FACTOR := 2.
(* result per bucket: Some floor = _dispatch_root_queue_poke(dq, 1, floor) is called *)
Fixpoint mon_pass (target soft_max : Z) (global_runnable : Z) (buckets : list (bool * Z)) : list (option Z) :=
  match buckets with
  | [] => []
  | (probe, num_runnable) :: rest =>
      if negb probe then None :: mon_pass target soft_max global_runnable rest
      else
        let g := global_runnable + num_runnable in
        if num_runnable =? 0 then
          Some (target - WORKQ_MAX_TRACKED_TIDS) :: mon_pass target soft_max (g + 1) rest
        else if (num_runnable <? target) && (g <? soft_max) then
          Some (Z.max ((1 - WORKQ_OVERSUBSCRIBE_FACTOR) * target) (target - WORKQ_MAX_TRACKED_TIDS))
            :: mon_pass target soft_max (g + 1) rest
        else None :: mon_pass target soft_max g rest
  end.
Definition mon_decide (ncpu : Z) (buckets : list (bool * Z)) : list (option Z) :=
  mon_pass ncpu (WORKQ_OVERSUBSCRIBE_FACTOR * ncpu) 0 buckets.

(* the monitor's poke run alone from state s: thread m, floor f, new worker u *)
Definition ev_call_mon (f : Z) := mkEv DVU_CALL 0 0 0 0 OP_MON (u64 f) 1.
Definition u32z (x : Z) := x mod 4294967296.
Definition mon_schedule (s : gst) (m f u : Z) : list (Z * event) :=
  [ (m, ev_call_mon f);
    (m, mkEv DV_LOAD MO_SEQ_CST OBJ_Q OFF_TAIL 8 (tail s) (tail s) 1);
    (m, mkEv DV_ADD MO_RELEASE OBJ_SEM OFF_VALUE 8 (u64 (sval s)) 1 1);
    (m, mkEv DV_CAS MO_RELAXED OBJ_Q OFF_PEND 4 0 1 1);
    (m, mkEv DV_LOAD MO_SEQ_CST OBJ_Q OFF_POOL 4 (u32z (pool s)) (u32z (pool s)) 1);
    (m, mkEv DV_CASW MO_ACQUIRE OBJ_Q OFF_POOL 4 (u32z (pool s)) (u32z (pool s - 1)) 1);
    (m, mkEv DVX_CREATE 0 0 0 0 u 0 1) ].

(* ------------------------------------------------------------------ for the correspondence driver *)
Definition pc_class0 (p : pc) : Z :=
  match p with
  | PNone | PClient COut => 0
  | PSemTimed | PSemBlocked => 1
  | PClient (CIn _) => 2
  | _ => 3
  end.
(* at the end of a recording a pending pthread_create (hidden) is taken as done *)
Definition pc_class (p : pc) : Z :=
  match p with PCreate k rem => if rem =? 1 then pc_class0 (kret k) else 3 | _ => pc_class0 p end.
(* sv = oc + 2 * kind; kind 0: a client thread, kind 1: a pool worker (starts in _dispatch_worker_thread) *)
Definition conform (sv : Z) (tr : list event) : Z * Z :=
  let oc := Z.odd sv in
  let p0 := if sv / 2 =? 1 then PWStart else PNone in
  let '(p, i) := run_trace (tstep_vis oc) p0 tr 0 in (i, pc_class p).

(* ------------------------------------------------------------------ a schedule in which the last wake-up is lost
   Pool of one thread (a one-cpu machine), non-overcommit queue.  Pusher A (thread 1) pushes item 16: worker W (thread 2)
   is created, runs it, finds the queue empty twice (the second look consumes the signal banked by A's poke), sleeps, times
   out and undoes its decrement.  Pusher Q (thread 3) pushes item 32 onto the empty queue, signals the semaphore (nobody
   waits: banked), takes dgq_pending and reads dgq_thread_pool_size = 0.  W gives its slot back (pool size 1), pokes:
   signal banked, dgq_pending busy -> returns, thread ends.  Q: can_request = 0 -> drops its request.
   Result: item 32 unclaimed, pool size 1, nothing pending, no thread left in the pool protocol: only the monitor's
   next pass (event/workqueue.c) gets item 32 a thread (RootQ_proofs.stall_reachable, monitor_poke_creates_worker). *)
Definition ev_call_push := mkEv DVU_CALL 0 0 0 0 OP_PUSH 0 1.
Definition ev_st_next (x v : Z) := mkEv DV_STORE MO_RELAXED OBJ_NEXT x 8 0 v 1.
Definition ev_xchg_tail (old new : Z) := mkEv DV_XCHG MO_RELEASE OBJ_Q OFF_TAIL 8 old new 1.
Definition ev_st_head (v : Z) := mkEv DV_STORE MO_RELAXED OBJ_Q OFF_HEAD 8 0 v 1.
Definition ev_ld_tail_sc (v : Z) := mkEv DV_LOAD MO_SEQ_CST OBJ_Q OFF_TAIL 8 v v 1.
Definition ev_sem_add (old : Z) := mkEv DV_ADD MO_RELEASE OBJ_SEM OFF_VALUE 8 (u64 old) 1 1.
Definition ev_cas_pend (obs new ok : Z) := mkEv DV_CAS MO_RELAXED OBJ_Q OFF_PEND 4 obs new ok.
Definition ev_ld_pool (v : Z) := mkEv DV_LOAD MO_SEQ_CST OBJ_Q OFF_POOL 4 v v 1.
Definition ev_casw_pool (obs new ok : Z) := mkEv DV_CASW MO_ACQUIRE OBJ_Q OFF_POOL 4 obs new ok.
Definition ev_create (u : Z) := mkEv DVX_CREATE 0 0 0 0 u 0 1.
Definition ev_sub_pend (old : Z) := mkEv DV_SUB MO_RELAXED OBJ_Q OFF_PEND 4 old 1 1.
Definition ev_xchg_head (old : Z) := mkEv DV_XCHG MO_RELAXED OBJ_Q OFF_HEAD 8 old MED 1.
Definition ev_pl_next (h v : Z) := mkEv DV_LOAD MO_PLAIN OBJ_NEXT h 8 v v 1.
Definition ev_cas_tail (obs ok : Z) := mkEv DV_CAS MO_RELEASE OBJ_Q OFF_TAIL 8 obs 0 ok.
Definition ev_cas_head (obs ok : Z) := mkEv DV_CAS MO_RELAXED OBJ_Q OFF_HEAD 8 obs 0 ok.
Definition ev_pl_tail (v : Z) := mkEv DV_LOAD MO_PLAIN OBJ_Q OFF_TAIL 8 v v 1.
Definition ev_sem_sub (old : Z) := mkEv DV_SUB MO_ACQUIRE OBJ_SEM OFF_VALUE 8 (u64 old) 1 1.
Definition ev_timedwait_ret (timedout : Z) := mkEv DV_SEM_TIMEDWAIT_RET 0 OBJ_SEM OFF_SEMA 0 0 timedout 1.
Definition ev_pl_sval (v : Z) := mkEv DV_LOAD MO_PLAIN OBJ_SEM OFF_VALUE 8 (u64 v) (u64 v) 1.
Definition ev_casw_sval (obs new ok : Z) := mkEv DV_CASW MO_RELAXED OBJ_SEM OFF_VALUE 8 (u64 obs) (u64 new) ok.
Definition ev_add_pool (old : Z) := mkEv DV_ADD MO_RELEASE OBJ_Q OFF_POOL 4 old 1 1.
Definition ev_callout_begin := mkEv DVU_CALLOUT_BEGIN 0 0 0 0 0 0 1.
Definition ev_callout_end := mkEv DVU_CALLOUT_END 0 0 0 0 0 0 1.

Definition on (t : Z) (l : list event) : list (Z * event) := map (fun e => (t, e)) l.
Definition stall_schedule : list (Z * event) :=
  on 1 [ ev_call_push; ev_st_next 16 0; ev_xchg_tail 0 16; ev_st_head 16; ev_ld_tail_sc 16; ev_sem_add 0; ev_cas_pend 0 1 1;
         ev_ld_pool 1; ev_casw_pool 1 0 1; ev_create 2 ] ++
  on 2 [ ev_sub_pend 1; ev_xchg_head 16; ev_pl_next 16 0; ev_st_head 0; ev_cas_tail 16 1; ev_callout_begin; ev_callout_end;
         ev_xchg_head 0; ev_cas_head MED 1; ev_pl_tail 0; ev_sem_sub 1;
         ev_xchg_head 0; ev_cas_head MED 1; ev_pl_tail 0; ev_sem_sub 0; ev_timedwait_ret 1; ev_pl_sval (-1);
         ev_casw_sval (-1) 0 1 ] ++
  on 3 [ ev_call_push; ev_st_next 32 0; ev_xchg_tail 0 32; ev_st_head 32; ev_ld_tail_sc 32; ev_sem_add 0; ev_cas_pend 0 1 1;
         ev_ld_pool 0 ] ++
  on 2 [ ev_add_pool 0; ev_ld_tail_sc 32; ev_sem_add 1; ev_cas_pend 1 1 0 ] ++
  on 3 [ ev_sub_pend 1 ].
(* summary of a state for evaluation: head, tail, pend, pool, sval, ksem, unclaimed, program-point classes of threads 1..3 *)
Definition summary (s : gst) : list Z * list Z :=
  ([head s; tail s; pend s; pool s; sval s; ksem s; pc_class0 (pcs s 1); pc_class0 (pcs s 2); pc_class0 (pcs s 3)], unclaimed s).
