(* Frames.v — hand model of the per-thread frame stack and of what is computed from it:
     _dispatch_thread_frame_push/_push_and_rebase/_save_state, _dispatch_thread_frame_iterate_start/_next,
     _dispatch_thread_frame_find_queue                                   (src/inline_internal.h:431-527)
     dispatch_assert_queue / dispatch_assert_queue_not                   (src/queue.c:61-96)
     dispatch_queue_set_specific / _get_specific / dispatch_get_specific (src/queue.c:2200-2369)
     dispatch_queue_get_label(DISPATCH_CURRENT_QUEUE_LABEL)              (src/queue.c, _dispatch_queue_get_current_or_default)
   and, hand-written, `frames_of_path`: the (current queue, frame stack) each submission path establishes when the item runs.

   Representation (same choices as the C code):
   * a queue is its address, a Z; NULL = 0.  The queue graph is a finite association list id -> record; it is listed so that
     every queue's target occurs LATER in the list (`wf_graph`, a boolean that the correspondence evaluates on every generated
     hierarchy): this is what "finite and acyclic" means here, and it yields the measure used by the proofs.
   * a frame dtf = (dtf_queue, dtf_prev); the thread's frame pointer is therefore a list of the dtf_queue values, innermost first,
     NULL = [] ; the TSD pair (dispatch_queue_key, dispatch_frame_key) is the record `thread`.
   * the loops of the C code (`while (it.dtfi_queue)`, `do … while (ctxt == NULL && dq)`) carry a fuel; the theorems show that the
     fuel the wrappers supply is never exhausted on a well-formed graph.
   Definitions only (proofs: Proofs/Frames_proofs.v). *)
From Coq Require Import ZArith Bool List.
From Verif Require Import Word Gen_consts Gen_dqstate.
Import ListNotations.
Local Open Scope Z_scope.

(* ---- object types (src/object_internal.h:363-419).  The harness prints the library's values of these constants (line "C") and the
        correspondence compares them with the ones below on every run. *)
Definition META_TYPE_MASK : Z := 255.
Definition LANE_TYPE : Z := 17.
Definition WORKLOOP_TYPE : Z := 18.
Definition QUEUE_BASE_TYPEFLAG : Z := 131072.
Definition QUEUE_MAIN_TYPE : Z := 394769.

Record entry := { e_key : Z; e_ctxt : Z; e_dtor : Z }.
Record qrec := {
  q_target : Z;              (* do_targetq *)
  q_type : Z;                (* dx_type: vtable do_type *)
  q_width : Z;               (* dq_width *)
  q_bound : bool;            (* DQF_THREAD_BOUND *)
  q_head : bool;             (* dq_specific_head != NULL *)
  q_entries : list entry     (* dqsh_entries, in TAILQ order *)
}.
Definition graph := list (Z * qrec).

Fixpoint lookup (g : graph) (q : Z) : option qrec :=
  match g with
  | [] => None
  | (id, r) :: g' => if id =? q then Some r else lookup g' q
  end.
Definition target (g : graph) (q : Z) : Z := match lookup g q with Some r => q_target r | None => 0 end.
Definition ids (g : graph) : list Z := map fst g.
Fixpoint memz (x : Z) (l : list Z) : bool := match l with [] => false | y :: l' => (y =? x) || memz x l' end.

(* finite + acyclic: ids non-null and distinct, every target is NULL or a queue listed later *)
Fixpoint wf_graph (g : graph) : bool :=
  match g with
  | [] => true
  | (id, r) :: g' => nz id && negb (memz id (ids g')) && (negb (nz (q_target r)) || memz (q_target r) (ids g')) && wf_graph g'
  end.
(* the measure: position from the end *)
Fixpoint rank (g : graph) (q : Z) : nat :=
  match g with
  | [] => O
  | (id, _) :: g' => if id =? q then S (length g') else rank g' q
  end.

(* the target chain of q as a list (specification side; the C code never builds it) *)
Fixpoint chain_fuel (g : graph) (n : nat) (q : Z) : list Z :=
  match n with
  | O => []
  | S n' => if nz q then q :: chain_fuel g n' (target g q) else []
  end.
Definition chain (g : graph) (q : Z) : list Z := chain_fuel g (S (length g)) q.

(* ---- thread state *)
Record thread := { t_cq : Z; t_frames : list Z }.
Definition thread_eqb (a b : thread) : bool :=
  (t_cq a =? t_cq b) && (fix eqb (x y : list Z) := match x, y with [], [] => true | u :: x', v :: y' => (u =? v) && eqb x' y' | _, _ => false end) (t_frames a) (t_frames b).

(* _dispatch_thread_frame_save_state(dtf): dtf->dtf_queue = current queue, dtf->dtf_prev = current frame; the frame `dtf` as a list *)
Definition frame_save_state (th : thread) : list Z := t_cq th :: t_frames th.
(* _dispatch_thread_frame_push(dtf, dq): save, then (queue, frame) := (dq, dtf) *)
Definition frame_push (th : thread) (dq : Z) : thread := {| t_cq := dq; t_frames := frame_save_state th |}.
(* _dispatch_thread_frame_push_and_rebase(dtf, dq, new_base): save, then (queue, frame) := (dq, new_base); `dtf` is kept by the caller *)
Definition frame_push_and_rebase (th : thread) (dq : Z) (new_base : list Z) : thread := {| t_cq := dq; t_frames := new_base |}.
(* _dispatch_thread_frame_pop(dtf) restores the saved pair: the caller's previous `thread` value *)

(* ---- the iterator (inline_internal.h:436-468) *)
Definition iterator := (Z * list Z)%type.
Definition iterate_start (th : thread) : iterator := (t_cq th, t_frames th).
Definition iterate_next (g : graph) (it : iterator) : iterator :=
  let '(dq, fr) := it in
  match fr with
  | f :: prev =>                                   (* if (dtf) *)
      let tq := target g dq in
      if nz tq then (tq, if dq =? f then prev else fr)  (* it->dtfi_queue = tq; if (dq == dtf->dtf_queue) it->dtfi_frame = dtf->dtf_prev *)
      else (f, prev)                                    (* it->dtfi_queue = dtf->dtf_queue; it->dtfi_frame = dtf->dtf_prev *)
  | [] => if nz dq then (target g dq, []) else it   (* else if (dq) it->dtfi_queue = dq->do_targetq *)
  end.
(* _dispatch_thread_frame_find_queue: while (it.dtfi_queue) { if (it.dtfi_queue == dq) return true; next } return false *)
Fixpoint find_loop (g : graph) (fuel : nat) (it : iterator) (q : Z) : option bool :=
  match fuel with
  | O => None
  | S n => if nz (fst it) then (if fst it =? q then Some true else find_loop g n (iterate_next g it) q) else Some false
  end.
Definition find_fuel (g : graph) (th : thread) : nat := S (S (length (t_frames th)) * S (S (length g))).
Definition find_queue_opt (g : graph) (th : thread) (q : Z) : option bool := find_loop g (find_fuel g th) (iterate_start th) q.
Definition find_queue (g : graph) (th : thread) (q : Z) : bool := match find_queue_opt g th q with Some b => b | None => false end.

(* ---- dispatch_assert_queue / dispatch_assert_queue_not.  `st` is the dq_state word of the queue, `tid` the calling thread *)
Inductive assert_result := APass | AFail | ACrash.
Definition metatype (r : qrec) : Z := Z.land (q_type r) META_TYPE_MASK.
Definition valid_assert_type (r : qrec) : bool := (metatype r =? LANE_TYPE) || (metatype r =? WORKLOOP_TYPE).
Definition locked_by_self (st tid : Z) : bool := nz (f_dq_state_drain_locked_by st tid).
Definition assert_queue (g : graph) (st tid : Z) (th : thread) (dq : Z) : assert_result :=
  match lookup g dq with
  | None => ACrash
  | Some r =>
      if negb (valid_assert_type r) then ACrash
      else if locked_by_self st tid then APass
      else if find_queue g th dq then APass
      else AFail
  end.
Definition assert_queue_not (g : graph) (st tid : Z) (th : thread) (dq : Z) : assert_result :=
  match lookup g dq with
  | None => ACrash
  | Some r =>
      if negb (valid_assert_type r) then ACrash
      else if locked_by_self st tid then AFail
      else if find_queue g th dq then AFail
      else APass
  end.

(* ---- queue-specific data *)
Definition admits_specific (r : qrec) : bool :=
  if metatype r =? LANE_TYPE then (q_type r =? QUEUE_MAIN_TYPE) || negb (nz (Z.land (q_type r) QUEUE_BASE_TYPEFLAG))
  else metatype r =? WORKLOOP_TYPE.
Fixpoint specific_find (l : list entry) (key : Z) : option entry :=
  match l with
  | [] => None
  | e :: l' => if e_key e =? key then Some e else specific_find l' key
  end.
(* _dispatch_queue_get_specific_inline *)
Definition get_specific_inline (g : graph) (dq key : Z) : Z :=
  match lookup g dq with
  | Some r => if admits_specific r && q_head r then match specific_find (q_entries r) key with Some e => e_ctxt e | None => 0 end else 0
  | None => 0
  end.
Definition queue_get_specific (g : graph) (dq key : Z) : Z := if nz key then get_specific_inline g dq key else 0.
(* dispatch_get_specific: do { ctxt = inline(dq, key); dq = dq->do_targetq; } while (ctxt == NULL && dq) *)
Fixpoint get_specific_loop (g : graph) (fuel : nat) (dq key : Z) : option Z :=
  match fuel with
  | O => None
  | S n =>
      let ctxt := get_specific_inline g dq key in
      let dq' := target g dq in
      if (ctxt =? 0) && nz dq' then get_specific_loop g n dq' key else Some ctxt
  end.
Definition get_specific_opt (g : graph) (th : thread) (key : Z) : option Z :=
  if nz key && nz (t_cq th) then get_specific_loop g (S (length g)) (t_cq th) key else Some 0.
Definition get_specific (g : graph) (th : thread) (key : Z) : Z := match get_specific_opt g th key with Some v => v | None => -1 end.

(* dispatch_queue_set_specific: the list update (find first entry with the key; replace in place / remove / append), with the
   destructor call posted for the old value *)
Fixpoint entries_set (l : list entry) (key ctxt dtor : Z) : list entry * list (Z * Z) :=
  match l with
  | [] => (if nz ctxt then [{| e_key := key; e_ctxt := ctxt; e_dtor := dtor |}] else [], [])
  | e :: l' =>
      if e_key e =? key then
        ((if nz ctxt then {| e_key := key; e_ctxt := ctxt; e_dtor := dtor |} :: l' else l'),
         (if nz (e_dtor e) then [(e_ctxt e, e_dtor e)] else []))
      else let '(l'', p) := entries_set l' key ctxt dtor in (e :: l'', p)
  end.
Fixpoint update (g : graph) (q : Z) (r' : qrec) : graph :=
  match g with
  | [] => []
  | (id, r) :: g' => if id =? q then (id, r') :: g' else (id, r) :: update g' q r'
  end.
Inductive set_result := SetCrash | SetOk (g' : graph) (posted : list (Z * Z)).
Definition set_specific (g : graph) (dq key ctxt dtor : Z) : set_result :=
  if negb (nz key) then SetOk g [] else
  match lookup g dq with
  | None => SetCrash
  | Some r =>
      if negb (admits_specific r) then SetCrash
      else if negb (q_head r) && negb (nz ctxt) then SetOk g []       (* no head, NULL value: nothing to do *)
      else
        (* (ctxt && !dqsh) allocates an empty head first *)
        let ents := if q_head r then q_entries r else [] in
        let '(ents', posted) := entries_set ents key ctxt dtor in
        SetOk (update g dq {| q_target := q_target r; q_type := q_type r; q_width := q_width r; q_bound := q_bound r;
                              q_head := true; q_entries := ents' |}) posted
  end.
(* _dispatch_queue_specific_head_dispose: every remaining entry with a destructor is called, the others are freed *)
Definition dispose_posts (r : qrec) : list (Z * Z) :=
  if q_head r then map (fun e => (e_ctxt e, e_dtor e)) (filter (fun e => nz (e_dtor e)) (q_entries r)) else [].

(* a sequence of set_specific calls; None = a crash on the way *)
Fixpoint run_sets (g : graph) (ops : list (Z * Z * Z * Z)) : option (graph * list (Z * Z)) :=
  match ops with
  | [] => Some (g, [])
  | (dq, key, ctxt, dtor) :: ops' =>
      match set_specific g dq key ctxt dtor with
      | SetCrash => None
      | SetOk g' p => match run_sets g' ops' with Some (g'', p') => Some (g'', p ++ p') | None => None end
      end
  end.

(* dispatch_queue_get_label(DISPATCH_CURRENT_QUEUE_LABEL): label of the current queue, or of the default overcommit root queue *)
Definition current_queue_or_default (dflt : Z) (th : thread) : Z := if nz (t_cq th) then t_cq th else dflt.

(* ---- frames_of_path (HAND-WRITTEN; tied to the library only by the correspondence run).
   What (current queue, frames) the executing thread has when the item body runs.
   PAsync top skipped : the item was submitted asynchronously (dispatch_async[_f], barrier async, group async, blocks with private data).
        The executing thread starts in a root-queue drain (_dispatch_root_queue_drain: current queue := root, no frame) or in the bound
        thread's _dispatch_main_queue_drain (push_and_rebase(dtf, main, NULL): the frames below are hidden), then every invoke on the way
        up (_dispatch_lane_drain, _dispatch_workloop_invoke2, _dispatch_async_redirect_invoke) pushes one frame.  Redirection through
        concurrent queues leaves out the frames of the queues in `skipped` (queues whose drain the item never went through).
   PSync top ctx : dispatch_sync / barrier_sync / async_and_wait (all variants), fast or slow path, executed by the submitter itself:
        _dispatch_sync_function_invoke_inline / _dispatch_async_and_wait_invoke_and_complete_recurse push top on the caller's stack `ctx`.
   PSyncRemote top ctx runner : the same submissions executed ON BEHALF of the waiter by the thread a queue is bound to, or by the drainer
        for async_and_wait (_dispatch_async_and_wait_invoke): push_and_rebase(dtf, dc_other = top, &dsc->dsc_dtf) where dsc_dtf is the
        waiter's saved state (__DISPATCH_WAIT_FOR_QUEUE__).
   PApplyWorker dq : an iteration of dispatch_apply run by a worker thread: root drain, then _dispatch_apply_redirect_invoke pushes dq
        (non-root dq) or nothing (_dispatch_apply_invoke on a root queue).  Iterations run by the caller are PSync dq ctx. *)
Inductive path :=
| PAsync (top : Z) (skipped : list Z)
| PSync (top : Z) (ctx : thread)
| PSyncRemote (top : Z) (ctx : thread) (runner : thread)
| PApplyWorker (dq : Z)
| PHere (ctx : thread).           (* no submission at all: code running directly in context ctx (e.g. a plain thread: no queue) *)

Definition is_bound (g : graph) (q : Z) : bool := match lookup g q with Some r => q_bound r | None => false end.
(* the part of a chain that a drain can show: up to and including the first thread-bound queue *)
Fixpoint cut_bound (g : graph) (l : list Z) : list Z :=
  match l with
  | [] => []
  | q :: l' => if is_bound g q then [q] else q :: cut_bound g l'
  end.
Definition async_thread (g : graph) (top : Z) (skipped : list Z) : thread :=
  match rev (cut_bound g (chain g top)) with
  | [] => {| t_cq := 0; t_frames := [] |}
  | entry :: ups =>
      fold_left frame_push (filter (fun q => (q =? top) || negb (memz q skipped)) ups) {| t_cq := entry; t_frames := [] |}
  end.
Definition bottom (g : graph) (q : Z) : Z := last (chain g q) 0.
Definition frames_of_path (g : graph) (p : path) : thread :=
  match p with
  | PAsync top skipped => async_thread g top skipped
  | PSync top ctx => frame_push ctx top
  | PSyncRemote top ctx runner => frame_push_and_rebase runner top (frame_save_state ctx)
  | PApplyWorker dq =>
      if nz (target g dq) then frame_push {| t_cq := bottom g dq; t_frames := [] |} dq else {| t_cq := dq; t_frames := [] |}
  | PHere ctx => ctx
  end.
Definition path_top (p : path) : Z :=
  match p with PAsync t _ => t | PSync t _ => t | PSyncRemote t _ _ => t | PApplyWorker t => t | PHere c => t_cq c end.
Definition path_ctx (p : path) : option thread :=
  match p with PSync _ c => Some c | PSyncRemote _ c _ => Some c | PHere c => Some c | _ => None end.

(* which frames redirection may leave out: a concurrent queue reached from a concurrent queue (never the submitted-to queue) *)
Definition is_concurrent (g : graph) (q : Z) : bool := match lookup g q with Some r => 1 <? q_width r | None => false end.
Fixpoint skippable (g : graph) (ch : list Z) : list Z :=
  match ch with
  | a :: ((b :: _) as ch') => if is_concurrent g a && is_concurrent g b && nz (target g b) then b :: skippable g ch' else skippable g ch'
  | _ => []
  end.
Fixpoint subsetz (a b : list Z) : bool := match a with [] => true | x :: a' => memz x b && subsetz a' b end.

(* ---- specification side, executable: what the property promises, computed from the graph alone *)
Fixpoint first_nonnull (l : list Z) : Z := match l with [] => 0 | v :: l' => if nz v then v else first_nonnull l' end.
Definition nearest_specific (g : graph) (top key : Z) : Z :=
  if nz key then first_nonnull (map (fun q => get_specific_inline g q key) (chain g top)) else 0.
Fixpoint live_frames (fr : list Z) : list Z := match fr with [] => [] | f :: fr' => if nz f then f :: live_frames fr' else [] end.
Definition visible (g : graph) (th : thread) : list Z :=
  if nz (t_cq th) then chain g (t_cq th) ++ flat_map (chain g) (live_frames (t_frames th)) else [].
Definition spec_visible (g : graph) (top : Z) (ctx : option thread) (q : Z) : bool :=
  memz q (chain g top) || match ctx with Some c => memz q (visible g c) | None => false end.

(* ---- one probe of the correspondence (harness/c18_frames.c line "P"), evaluated inside Coq.
   Result: list of 0/1 flags
     [ stack ids known; find_queue = library's iterator on the observed stack; get_specific = library on the observed stack;
       label; assert_queue statuses; assert_queue_not statuses;                                   (model vs library: the tie)
       observed stack is one of the stacks frames_of_path allows (allowed_threads);               (frames_of_path vs library)
       get_specific = nearest on chain of top; label = top; assert verdicts = chain / context;
       drain locks held by the thread are within chain / context                                  (library vs the property) ] *)
Record probe := {
  p_path : path; p_tid : Z; p_obs : thread; p_label : Z; p_gs : list Z; p_states : list Z; p_find : list Z;
  p_asserted : bool; p_aq : list Z; p_anq : list Z }.
Fixpoint zeqb_list (x y : list Z) : bool :=
  match x, y with [], [] => true | a :: x', b :: y' => (a =? b) && zeqb_list x' y' | _, _ => false end.
Definition status_of (r : assert_result) : Z := match r with APass => 0 | _ => 4 end.   (* 4 = SIGILL from __builtin_trap *)
(* the stacks frames_of_path allows for a path.  For an asynchronous item the model does not say WHICH of the skippable frames
   redirection left out (that depends on whether a concurrent queue was idle when the item arrived), only which MAY be left out:
   the allowed stacks are frames_of_path g (PAsync top sk) for every sublist sk of `skippable g (chain g top)`.  The observed
   stack is compared with this SET (no part of the observation is substituted into the model). *)
Fixpoint sublists (l : list Z) : list (list Z) :=
  match l with
  | [] => [[]]
  | x :: l' => let r := sublists l' in r ++ map (cons x) r
  end.
Definition allowed_threads (g : graph) (p : path) : list thread :=
  match p with
  | PAsync top _ => map (fun sk => frames_of_path g (PAsync top sk)) (sublists (skippable g (chain g top)))
  | _ => [frames_of_path g p]
  end.
Definition probe_check (g : graph) (tab keys : list Z) (dflt : Z) (p : probe) : list Z :=
  let th := p_obs p in
  let top := path_top (p_path p) in
  let locked := map (fun '(q, st) => locked_by_self st (p_tid p)) (combine tab (p_states p)) in
  let valid := map (fun q => match lookup g q with Some r => valid_assert_type r | None => false end) tab in
  map b2z [
    negb (memz (-1) (t_cq th :: t_frames th));
    zeqb_list (map (fun q => b2z (find_queue g th q)) tab) (p_find p);
    zeqb_list (map (get_specific g th) keys) (p_gs p);
    current_queue_or_default dflt th =? p_label p;
    negb (p_asserted p) || zeqb_list (map (fun '(q, st) => status_of (assert_queue g st (p_tid p) th q)) (combine tab (p_states p))) (p_aq p);
    negb (p_asserted p) || zeqb_list (map (fun '(q, st) => status_of (assert_queue_not g st (p_tid p) th q)) (combine tab (p_states p))) (p_anq p);
    existsb (thread_eqb th) (allowed_threads g (p_path p));
    zeqb_list (map (nearest_specific g top) keys) (p_gs p);
    (if nz top then top else dflt) =? p_label p;
    negb (p_asserted p) ||
      zeqb_list (map (fun '(q, (l, v)) => if negb v then 4 else if l || spec_visible g top (path_ctx (p_path p)) q then 0 else 4)
                     (combine tab (combine locked valid))) (p_aq p);
    negb (p_asserted p) ||
      zeqb_list (map (fun '(q, (l, v)) => if negb v then 4 else if l || spec_visible g top (path_ctx (p_path p)) q then 4 else 0)
                     (combine tab (combine locked valid))) (p_anq p);
    (* every queue whose drain lock the executing thread holds is on the chain / in the submitting context anyway *)
    forallb (fun '(q, l) => negb l || spec_visible g top (path_ctx (p_path p)) q) (combine tab locked)
  ].
(* queue_get_specific dump (line "D"): every (queue, key) pair of the table *)
Definition dump_specifics (g : graph) (tab keys : list Z) : list (Z * Z * Z) :=
  flat_map (fun q => flat_map (fun k => let v := queue_get_specific g q k in if nz v then [(q, k, v)] else []) keys) tab.

(* a non-trivial hierarchy for the non-vacuity example of Properties_C18.v: 3 (concurrent) -> 2 -> 1 -> main queue (thread-bound) -> root 107,
   6 -> 5 -> 4 (all concurrent) -> root 106 *)
Definition example_graph : graph :=
  let lane t w := {| q_target := t; q_type := 273; q_width := w; q_bound := false; q_head := false; q_entries := [] |} in
  let conc t := {| q_target := t; q_type := 529; q_width := 4094; q_bound := false; q_head := false; q_entries := [] |} in
  let root := {| q_target := 0; q_type := 328465; q_width := 4095; q_bound := false; q_head := false; q_entries := [] |} in
  [(6, conc 5); (5, conc 4); (4, conc 106); (3, conc 2); (2, lane 1 1); (1, lane 200 1);
   (200, {| q_target := 107; q_type := 394769; q_width := 1; q_bound := true; q_head := false; q_entries := [] |}); (106, root); (107, root)].
