(* MainQ.v — the MAIN QUEUE (src/queue.c "dispatch_main_queue" / "dispatch_runloop_queue", src/init.c _dispatch_main_q):
   a serial lane (dq_width 1, role BASE_ANON) that is THREAD-BOUND (DQF_THREAD_BOUND, drain-owner bits = the main
   thread) until dispatch_main() turns it into an ordinary serial lane.

   Phase 1, thread-bound:
     _dispatch_main_queue_push (:6998)      = the two-step MPSC push of every lane (_dispatch_queue_push_item), then
                                              dx_wakeup(MAKE_DIRTY) when the list was empty, else (on a plain read of
                                              the max QoS) dx_wakeup(qos, 0) or nothing;
     _dispatch_main_queue_wakeup (:7014)    = load dq_atomic_flags: thread-bound ?  yes: _dispatch_runloop_queue_wakeup
                                              (:6721): or(dq_state, DIRTY, release) if MAKE_DIRTY; probe dq_items_tail;
                                              non-empty: _dispatch_runloop_queue_poke (:6672) = rmw loop merging the QoS,
                                              then eventfd_write(handle, 1); empty: and(dq_state, ~(MAX_QOS|OVERRIDE)), and
                                              when that cleared a QoS, probe again and poke;
     _dispatch_main_queue_callback_4CF (:6980) called BY THE BOUND THREAD after it read the eventfd (the API contract:
                                              it is the scheduler constraint of this model, `mbegin` MService / MCallback
                                              are enabled for the bound thread only): re-entrancy guard
                                              dq_side_suspend_cnt, then _dispatch_main_queue_drain (:6786): plain read of
                                              dq_items_tail (empty: return), thread-bound and owner checks,
                                              os_mpsc_capture_snapshot (wait for the head link, head = NULL,
                                              xchg(tail, NULL)) = the WHOLE list is taken privately, then each captured
                                              item is run (os_mpsc_pop_snapshot_head waits for the successor's link),
                                              then dx_wakeup(dq, 0, 0): the exit probe that pokes the handle again when
                                              items arrived meanwhile;
     dispatch_sync / dispatch_async_and_wait from another thread: the barrier fast path
                                              (_dispatch_queue_try_acquire_barrier_sync) refuses a word with owner bits,
                                              _dispatch_sync_f_slow (:1710) pushes the caller's context like any item and
                                              parks on its thread event (__DISPATCH_WAIT_FOR_QUEUE__ :1617); the bound
                                              thread runs the context's function _dispatch_async_and_wait_invoke
                                              (:1528) = the client block ON THE BOUND THREAD, clears dsc_func, signals.
   Phase 2, dispatch_main() (:7053) -> pthread_exit -> _dispatch_queue_cleanup2 (:7088): rmw loop taking IN_BARRIER +
   one width interval and clearing DIRTY, clear DQF_THREAD_BOUND, _dispatch_lane_barrier_complete (:1499) /
   _dispatch_lane_class_barrier_complete (:1322) releasing the lane (enqueueing it on its root queue when the list is
   not empty), close the handle.  From then on the queue IS a serial lane: the lane component of the state is
   literally a state of Model/SLane.v and every ordinary-lane program point is executed by SLane.gstep itself.  What
   is transferred is SLane's INVARIANT: Proofs/MainQ_proofs.v proves SLane_proofs.Inv (lane s) after the release
   (C02_mainq_handoff_partial) and preserves it with SLane_proofs.step_preserves.  `lane s` is not shown to be a
   reachable state of SLane's own transition system, so SLane theorems stated over SLane-reachable states are not
   instantiated; the consequences used here are read off the invariant: C02_mainq_lane_not_stranded (its field
   g_nostrand), and the phase-2 halves of C02_mainq_exclusive / C02_mainq_fifo (g_running, g_order).

   Every dq_state transition is the body generated from the source (Gen_dqstate).  An rmw loop is one atomic step.
   The eventfd is a counter (eventfd_write adds 1, the bound thread's read resets it).  Thread events are the futex
   word of src/shims/lock.h:301-330 (dte_value: signal = inc_orig release, wait = dec acquire, slow paths futex).
   Scope / client contract of the model (stated in lib/props/c02_mainq.py ASSUMPTIONS): only the bound thread services
   the handle and calls the callback; dispatch_main() is called when no synchronous call onto the main queue is in
   flight and none is started afterwards (those would take the ordinary-lane waiter paths of Model/SyncWait.v);
   the main queue is never suspended, retargeted or released; QoS arguments are existential (0..7).
   Submission from inside a callout: a work item running ON THE BOUND THREAD (thread-bound phase) may call
   dispatch_async_f onto the main queue: `mbegin` MAsync at MB_incall i w more runs the push and its wakeup with the
   continuation KCall i w more and returns into the callout (the bound thread pushing onto its own queue while it
   drains: it pokes its own handle, and the drain's exit wakeup pokes again).  NOT modelled (model scope, not an API
   contract): a work item that submits from inside its callout on a WORKER after dispatch_main() (SLane.begin needs an
   idle thread: one program point per thread there), synchronous calls from inside a callout, and any dispatch_sync /
   dispatch_async_and_wait onto the main queue after dispatch_main() (MSync carries negb (mainstarted s)).  The stress
   client exercises the first of these on the real library (scenario phase2: oracle + trace automaton). *)
From Coq Require Import ZArith Bool List.
From Verif Require Import Word Conc Gen_consts Gen_dqstate SLane.
Import ListNotations.
Local Open Scope Z_scope.

Definition MAXV := 4294967295.                 (* UINT32_MAX: the thread event is waited on and not signalled *)
Definition QOS_BITS := 64424509440.            (* DISPATCH_QUEUE_MAX_QOS_MASK | DISPATCH_QUEUE_RECEIVED_OVERRIDE *)

(* what follows a push + wakeup *)
Inductive cont :=
| KRet                      (* dispatch_async_f returns *)
| KWait                     (* __DISPATCH_WAIT_FOR_QUEUE__: park on the thread event *)
| KDrain                    (* end of _dispatch_main_queue_drain *)
| KCall (i w : Z) (more : bool).   (* back in the callout of item i on the bound thread (MB_incall i w more): the work item
                               itself called dispatch_async_f(dispatch_get_main_queue(), ...) *)

(* main-queue specific program points; a thread that is at none of them (MIdle) is idle or runs ordinary lane code at
   the program point `pcs (lane s) t` of Model/SLane.v *)
Inductive mpc :=
| MIdle
| MP_push (k : cont)                     (* _dispatch_queue_push_item: the lane program points PA_xchg / PA_link *)
(* dx_wakeup = _dispatch_main_queue_wakeup(dq, q, d ? MAKE_DIRTY : 0) *)
| MW_bound (q : Z) (d : bool) (k : cont) (* load(dq_atomic_flags): DQF_THREAD_BOUND ? *)
| MW_rel (q : Z) (d : bool) (k : cont)   (* _dispatch_runloop_queue_wakeup: load(dq_atomic_flags): DQF_RELEASED ? *)
| MW_or (q : Z) (k : cont)               (* or(dq_state, DIRTY, release) *)
| MW_probe (q : Z) (k : cont)            (* _dispatch_queue_class_probe: load(dq_items_tail, seq_cst) *)
| MW_merge (q : Z) (k : cont)            (* _dispatch_runloop_queue_poke: rmw loop (relaxed) merging the QoS *)
| MW_write (k : cont)                    (* _dispatch_runloop_queue_class_poke: eventfd_write(handle, 1) *)
| MW_reset (k : cont)                    (* _dispatch_runloop_queue_reset_max_qos: and_orig(dq_state, ~QOS_BITS) *)
| MW_probe2 (q : Z) (k : cont)           (* it cleared a QoS: probe again *)
| MW_ret (k : cont)
(* dispatch_sync_f / dispatch_async_and_wait_f from a thread other than the bound one *)
| MS_aaw (q : Z)                         (* _dispatch_async_and_wait_recurse_one: load(dq_state, relaxed) *)
| MS_fast (q : Z)                        (* _dispatch_queue_try_acquire_barrier_sync: dq_items_tail ? else the rmw loop *)
| MS_prep (q : Z)                        (* _dispatch_wait_prepare: rmw loop; then the context and its event are set up *)
| MS_dec                                 (* _dispatch_thread_event_wait: dec(dte_value, acquire) *)
| MS_load                                (* _dispatch_thread_event_wait_slow: load(dte_value, acquire) *)
| MS_futex                               (* futex_wait(&dte_value, UINT32_MAX) *)
| MS_sleep
| MS_woken                               (* back in _dispatch_sync_f_slow: dsc_func == NULL ? *)
(* the bound thread inside _dispatch_main_queue_callback_4CF *)
| MB_tail                                (* _dispatch_main_queue_drain: if (!dq->dq_items_tail) return *)
| MB_bound                               (* load(dq_atomic_flags): must be thread-bound *)
| MB_state                               (* load(dq_state): must be drain-locked by self *)
| MB_head                                (* os_mpsc_capture_snapshot: os_mpsc_get_head (waits for the enqueuer) *)
| MB_clr                                 (* store(dq_items_head, NULL) *)
| MB_snap                                (* xchg(dq_items_tail, NULL, release) *)
| MB_next                                (* os_mpsc_pop_snapshot_head: the successor's link, unless dc == tail *)
| MB_run (i w : Z) (more : bool)         (* _dispatch_continuation_pop_inline: the client callout begins (w = waiter or 0) *)
| MB_incall (i w : Z) (more : bool)
| MB_sig (w : Z) (more : bool)           (* _dispatch_async_and_wait_invoke: _dispatch_thread_event_signal: inc_orig release *)
| MB_fwake (w : Z) (more : bool)         (* _dispatch_thread_event_signal_slow: futex_wake *)
| MB_loop (more : bool)                  (* while ((dc = next_dc)); then dx_wakeup(dq, 0, 0) *)
| MB_ret                                 (* dq_side_suspend_cnt = false; return to the run loop *)
(* dispatch_main() -> _dispatch_queue_cleanup2 on the bound thread *)
| MC_rmw                                 (* rmw loop (acquire): &= ~DIRTY, += WIDTH_INTERVAL, += IN_BARRIER *)
| MC_clr                                 (* _dispatch_queue_atomic_flags_clear(dq, DQF_THREAD_BOUND) *)
| MC_tail                                (* _dispatch_lane_barrier_complete: dq->dq_items_tail ? *)
| MC_susp                                (* DISPATCH_QUEUE_IS_SUSPENDED: load(dq_state, relaxed) *)
| MC_head                                (* _dispatch_queue_get_head; is it a sync waiter ? *)
| MC_cbc (tgt : bool)                    (* _dispatch_lane_class_barrier_complete: rmw loop (release) *)
| MC_xor                                 (* it saw DIRTY: xor(dq_state, DIRTY, acquire) *)
| MC_flags                               (* dx_wakeup(BARRIER_COMPLETE) = _dispatch_main_queue_wakeup: load(dq_atomic_flags) *)
| MC_push                                (* ENQUEUED was set: _dispatch_queue_push_queue (the lane's PA_rootpush) *)
| MC_close                               (* _dispatch_runloop_queue_handle_dispose: close(handle) *)
| MC_gone.                               (* the main thread is parked in sigsuspend for ever *)

(* per-thread state of a synchronous call: the dispatch_sync_context_s on the caller's stack *)
Record wst := {
  w_dte : Z;          (* dsc_event.dte_value *)
  w_wok : bool;       (* kernel: a FUTEX_WAKE hit the sleeper *)
  w_null : bool;      (* dsc_func == NULL: the item ran on the queue's thread *)
  w_sigd : bool;      (* ghost: _dispatch_thread_event_signal done *)
  w_item : Z          (* ghost: id of the pushed context *)
}.
Definition w0 : wst := {| w_dte := 0; w_wok := false; w_null := false; w_sigd := false; w_item := 0 |}.

Record mst := {
  lane : gst;                 (* dq_state, the MPSC list, root-queue count, ordinary-lane program points, ghosts of SLane *)
  mpcs : Z -> mpc;
  mtid : Z;                   (* the bound (main) thread *)
  mprio : Z;                  (* _dispatch_priority_qos(dq->dq_priority) *)
  bound : bool;               (* dq_atomic_flags & DQF_THREAD_BOUND *)
  incb : bool;                (* dq_side_suspend_cnt: inside the callback *)
  evfd : Z;                   (* the eventfd counter *)
  hopen : bool;               (* the handle is valid (do_ctxt != NULL) *)
  snap : list entry;          (* the bound thread's captured snapshot, not yet popped *)
  ws : Z -> wst;
  waiter_of : Z -> Z;         (* ghost: item id -> waiting thread (0 = asynchronous item) *)
  finished : list Z;          (* ghost: items whose callout ended *)
  mainran : list Z;           (* ghost: items whose callout was begun by the bound thread's drain *)
  syncers : list Z;           (* ghost: threads inside a synchronous call onto the main queue *)
  mainstarted : bool          (* ghost: dispatch_main() was called *)
}.

Definition set_lane (s : mst) (l : gst) : mst :=
  {| lane := l; mpcs := mpcs s; mtid := mtid s; mprio := mprio s; bound := bound s; incb := incb s; evfd := evfd s;
     hopen := hopen s; snap := snap s; ws := ws s; waiter_of := waiter_of s; finished := finished s;
     mainran := mainran s; syncers := syncers s; mainstarted := mainstarted s |}.
Definition set_mpc (s : mst) (t : Z) (p : mpc) : mst :=
  {| lane := lane s; mpcs := upd (mpcs s) t p; mtid := mtid s; mprio := mprio s; bound := bound s; incb := incb s;
     evfd := evfd s; hopen := hopen s; snap := snap s; ws := ws s; waiter_of := waiter_of s; finished := finished s;
     mainran := mainran s; syncers := syncers s; mainstarted := mainstarted s |}.
Definition set_bound (s : mst) (b : bool) : mst :=
  {| lane := lane s; mpcs := mpcs s; mtid := mtid s; mprio := mprio s; bound := b; incb := incb s; evfd := evfd s;
     hopen := hopen s; snap := snap s; ws := ws s; waiter_of := waiter_of s; finished := finished s;
     mainran := mainran s; syncers := syncers s; mainstarted := mainstarted s |}.
Definition set_incb (s : mst) (b : bool) : mst :=
  {| lane := lane s; mpcs := mpcs s; mtid := mtid s; mprio := mprio s; bound := bound s; incb := b; evfd := evfd s;
     hopen := hopen s; snap := snap s; ws := ws s; waiter_of := waiter_of s; finished := finished s;
     mainran := mainran s; syncers := syncers s; mainstarted := mainstarted s |}.
Definition set_evfd (s : mst) (n : Z) : mst :=
  {| lane := lane s; mpcs := mpcs s; mtid := mtid s; mprio := mprio s; bound := bound s; incb := incb s; evfd := n;
     hopen := hopen s; snap := snap s; ws := ws s; waiter_of := waiter_of s; finished := finished s;
     mainran := mainran s; syncers := syncers s; mainstarted := mainstarted s |}.
Definition set_hopen (s : mst) (b : bool) : mst :=
  {| lane := lane s; mpcs := mpcs s; mtid := mtid s; mprio := mprio s; bound := bound s; incb := incb s; evfd := evfd s;
     hopen := b; snap := snap s; ws := ws s; waiter_of := waiter_of s; finished := finished s;
     mainran := mainran s; syncers := syncers s; mainstarted := mainstarted s |}.
Definition set_snap (s : mst) (l : list entry) : mst :=
  {| lane := lane s; mpcs := mpcs s; mtid := mtid s; mprio := mprio s; bound := bound s; incb := incb s; evfd := evfd s;
     hopen := hopen s; snap := l; ws := ws s; waiter_of := waiter_of s; finished := finished s;
     mainran := mainran s; syncers := syncers s; mainstarted := mainstarted s |}.
Definition set_ws (s : mst) (t : Z) (w : wst) : mst :=
  {| lane := lane s; mpcs := mpcs s; mtid := mtid s; mprio := mprio s; bound := bound s; incb := incb s; evfd := evfd s;
     hopen := hopen s; snap := snap s; ws := upd (ws s) t w; waiter_of := waiter_of s; finished := finished s;
     mainran := mainran s; syncers := syncers s; mainstarted := mainstarted s |}.
Definition set_waiter (s : mst) (i w : Z) : mst :=
  {| lane := lane s; mpcs := mpcs s; mtid := mtid s; mprio := mprio s; bound := bound s; incb := incb s; evfd := evfd s;
     hopen := hopen s; snap := snap s; ws := ws s; waiter_of := upd (waiter_of s) i w; finished := finished s;
     mainran := mainran s; syncers := syncers s; mainstarted := mainstarted s |}.
Definition set_finished (s : mst) (l : list Z) : mst :=
  {| lane := lane s; mpcs := mpcs s; mtid := mtid s; mprio := mprio s; bound := bound s; incb := incb s; evfd := evfd s;
     hopen := hopen s; snap := snap s; ws := ws s; waiter_of := waiter_of s; finished := l;
     mainran := mainran s; syncers := syncers s; mainstarted := mainstarted s |}.
Definition set_mainran (s : mst) (l : list Z) : mst :=
  {| lane := lane s; mpcs := mpcs s; mtid := mtid s; mprio := mprio s; bound := bound s; incb := incb s; evfd := evfd s;
     hopen := hopen s; snap := snap s; ws := ws s; waiter_of := waiter_of s; finished := finished s;
     mainran := l; syncers := syncers s; mainstarted := mainstarted s |}.
Definition set_syncers (s : mst) (l : list Z) : mst :=
  {| lane := lane s; mpcs := mpcs s; mtid := mtid s; mprio := mprio s; bound := bound s; incb := incb s; evfd := evfd s;
     hopen := hopen s; snap := snap s; ws := ws s; waiter_of := waiter_of s; finished := finished s;
     mainran := mainran s; syncers := l; mainstarted := mainstarted s |}.
Definition set_mainstarted (s : mst) (b : bool) : mst :=
  {| lane := lane s; mpcs := mpcs s; mtid := mtid s; mprio := mprio s; bound := bound s; incb := incb s; evfd := evfd s;
     hopen := hopen s; snap := snap s; ws := ws s; waiter_of := waiter_of s; finished := finished s;
     mainran := mainran s; syncers := syncers s; mainstarted := b |}.

(* updates of one field of a synchronous caller's context *)
Definition wset_dte (w : wst) (v : Z) : wst :=
  {| w_dte := v; w_wok := w_wok w; w_null := w_null w; w_sigd := w_sigd w; w_item := w_item w |}.
Definition wset_wok (w : wst) (b : bool) : wst :=
  {| w_dte := w_dte w; w_wok := b; w_null := w_null w; w_sigd := w_sigd w; w_item := w_item w |}.
Definition wset_null (w : wst) (b : bool) : wst :=
  {| w_dte := w_dte w; w_wok := w_wok w; w_null := b; w_sigd := w_sigd w; w_item := w_item w |}.
Definition wset_sigd (w : wst) (b : bool) : wst :=
  {| w_dte := w_dte w; w_wok := w_wok w; w_null := w_null w; w_sigd := b; w_item := w_item w |}.
Definition wset_item (w : wst) (i : Z) : wst :=
  {| w_dte := w_dte w; w_wok := w_wok w; w_null := w_null w; w_sigd := w_sigd w; w_item := i |}.

(* callout marks on the lane's ghost state *)
Definition lane_callout_begin (l : gst) (t i : Z) : gst :=
  {| st := st l; lst := lst l; rootq := rootq l; pcs := pcs l; nextid := nextid l; started := i :: started l;
     running := Some (t, i); token := token l; wakers := wakers l |}.
Definition lane_callout_end (l : gst) : gst :=
  {| st := st l; lst := lst l; rootq := rootq l; pcs := pcs l; nextid := nextid l; started := started l;
     running := None; token := token l; wakers := wakers l |}.

Definition minit (m prio role_bits : Z) : mst :=
  {| lane := set_st (init_state role_bits) (st (init_state role_bits) + m);   (* _dispatch_queue_set_bound_thread *)
     mpcs := fun _ => MIdle; mtid := m; mprio := prio; bound := true; incb := false; evfd := 0; hopen := true;
     snap := []; ws := fun _ => w0; waiter_of := fun _ => 0; finished := []; mainran := []; syncers := [];
     mainstarted := false |}.

(* ------------------------------------------------------------------ what a client may start *)
Inductive mcall :=
| MAsync (q : Z)                 (* dispatch_async_f(dispatch_get_main_queue(), ...) *)
| MSync (aaw : bool) (q : Z)     (* dispatch_sync_f / dispatch_barrier_sync_f (aaw = false), dispatch_async_and_wait_f *)
| MService                       (* the bound thread: the handle is readable: read it, then the callback *)
| MCallback                      (* the bound thread: the callback without a read (allowed by the API at any time) *)
| MMain                          (* the bound thread: dispatch_main() *)
| MWorker (floor : Z).           (* a worker of the target root queue pops the lane (phase 2) *)

Definition qos_ok (q : Z) : bool := (0 <=? q) && (q <? 8).

(* _dispatch_main_queue_callback_4CF: the re-entrancy guard *)
Definition callback (s : mst) (t : Z) : mst :=
  if incb s then s else set_mpc (set_incb s true) t MB_tail.

Definition mbegin (s : mst) (t : Z) (c : mcall) : option mst :=
  match pcs (lane s) t with
  | Idle =>
      match c with
      | MAsync q =>
          match mpcs s t with
          | MIdle => if qos_ok q then Some (set_mpc (set_lane s (set_pc (lane s) t (PA_xchg q))) t (MP_push KRet)) else None
          (* a work item running on the bound thread submits to the main queue from inside its callout: the push and its
             wakeup run on top of the suspended callout and return into it *)
          | MB_incall i w more =>
              if qos_ok q then Some (set_mpc (set_lane s (set_pc (lane s) t (PA_xchg q))) t (MP_push (KCall i w more))) else None
          | _ => None
          end
      | MSync aaw q =>
          match mpcs s t with
          | MIdle => if qos_ok q && negb (t =? mtid s) && negb (mainstarted s)
                     then Some (set_mpc (set_syncers s (t :: syncers s)) t (if aaw then MS_aaw q else MS_fast q))
                     else None
          | _ => None
          end
      | MService =>
          (* also from inside a work item (a nested run loop): the guard makes the nested callback return at once *)
          match mpcs s t with
          | MIdle | MB_incall _ _ _ =>
              if (t =? mtid s) && (0 <? evfd s) && hopen s then Some (callback (set_evfd s 0) t) else None
          | _ => None
          end
      | MCallback =>
          match mpcs s t with
          | MIdle | MB_incall _ _ _ => if t =? mtid s then Some (callback s t) else None
          | _ => None
          end
      | MMain =>
          match mpcs s t, syncers s with
          | MIdle, [] => if t =? mtid s then Some (set_mpc (set_mainstarted s true) t MC_rmw) else None
          | _, _ => None
          end
      | MWorker floor =>
          match mpcs s t with
          | MIdle => if t =? mtid s then None
                     else match begin (lane s) t (CWorker floor) with Some l => Some (set_lane s l) | None => None end
          | _ => None
          end
      end
  | _ => None
  end.

(* _dispatch_queue_push_qos *)
Definition push_qos (s : mst) (q : Z) : Z := if mprio s <? q then q else 0.

Definition lane_step (s : mst) (t : Z) : option mst :=
  match gstep (lane s) t with Some l => Some (set_lane s l) | None => None end.

(* one atomic step of thread t; None = not enabled (waiting) or a path outside the model *)
Definition mstep (s : mst) (t : Z) : option mst :=
  let L := lane s in
  let w := ws s t in
  match mpcs s t with
  | MIdle => lane_step s t                     (* ordinary lane code: exactly Model/SLane.v *)
  | MP_push k =>
      match pcs L t with
      | PA_xchg q =>
          match lane_step s t with
          | Some s1 => Some (set_ws (set_waiter s1 (nextid L) (match k with KWait => t | _ => 0 end)) t
                               (match k with KWait => wset_item w (nextid L) | _ => w end))
          | None => None
          end
      | PA_link i we q =>
          (* the link store goes to the predecessor wherever it is: still in the list, or already in the bound thread's snapshot *)
          match lane_step s t with
          | Some s1 => Some (set_mpc (set_snap s1 (link_id (snap s) i)) t (if we then MW_bound q true k else MW_ret k))
          | None => None
          end
      | _ => None
      end
  | MW_bound q d k =>
      if bound s
      then Some (set_mpc (if d then set_lane s (set_wakers (set_pc L t Idle) (remove_z t (wakers L))) else s) t (MW_rel q d k))
      else match k with
           | KRet => Some (if d then set_mpc s t MIdle                            (* _dispatch_lane_wakeup(MAKE_DIRTY): PA_probe q *)
                           else set_mpc (set_lane s (set_pc L t (PA_oprobe q))) t MIdle)   (* _dispatch_lane_wakeup(q, 0) *)
           | _ => None
           end
  | MW_rel q d k => Some (set_mpc s t (if d then MW_or q k else MW_probe q k))
  | MW_or q k =>
      match runloop_wakeup_dirty_op (st L) with
      | Commit new _ => Some (set_mpc (set_lane s (set_st L new)) t (MW_probe q k))
      | _ => None
      end
  | MW_probe q k => Some (set_mpc s t (match lst L with [] => MW_reset k | _ => MW_merge q k end))
  | MW_merge q k =>
      match runloop_queue_poke_loop 0 q 0 (st L) with
      | Commit new _ => Some (set_mpc (set_lane s (set_st L new)) t (MW_write k))
      | NoCommit _ _ => Some (set_mpc s t (MW_write k))
      | _ => None
      end
  | MW_write k => Some (set_mpc (if hopen s then set_evfd s (evfd s + 1) else s) t (MW_ret k))
  | MW_reset k =>
      match runloop_reset_max_qos_op QOS_BITS (st L) with
      | Commit new _ =>
          let q' := f_dq_state_max_qos (st L) in
          Some (set_mpc (set_lane s (set_st L new)) t (if q' =? 0 then MW_ret k else MW_probe2 q' k))
      | _ => None
      end
  | MW_probe2 q k => Some (set_mpc s t (match lst L with [] => MW_ret k | _ => MW_merge q k end))
  | MW_ret k => Some (set_mpc s t (match k with KRet => MIdle | KWait => MS_dec | KDrain => MB_ret
                                   | KCall i w more => MB_incall i w more end))
  (* ---- synchronous callers ---- *)
  | MS_aaw q => Some (set_mpc s t (MS_fast q))
  | MS_fast q =>
      match lst L with
      | [] =>
          match f_dispatch_queue_try_acquire_barrier_sync_and_suspend 0 t 0 1 (st L) with
          | NoCommit _ _ => Some (set_mpc s t (MS_prep q))
          | _ => None                          (* the fast path of an ordinary lane: never on a thread-bound word *)
          end
      | _ => Some (set_mpc s t (MS_prep q))    (* dq_items_tail != NULL: the fast path does not overtake queued items *)
      end
  | MS_prep q =>
      match wait_prepare_loop 0 (st L) with
      | NoCommit _ _ =>
          Some (set_mpc (set_ws (set_lane s (set_pc L t (PA_xchg q))) t
                          {| w_dte := 0; w_wok := false; w_null := false; w_sigd := false; w_item := w_item w |})
                        t (MP_push KWait))
      | _ => None
      end
  | MS_dec =>
      let v := (w_dte w - 1) mod 4294967296 in
      Some (set_mpc (set_ws s t (wset_dte w v)) t (if v =? 0 then MS_woken else MS_load))
  | MS_load => if w_dte w =? 0 then Some (set_mpc s t MS_woken)
               else if w_dte w =? MAXV then Some (set_mpc s t MS_futex) else None
  | MS_futex => if w_dte w =? MAXV then Some (set_mpc (set_ws s t (wset_wok w false)) t MS_sleep)
                else Some (set_mpc s t MS_load)
  | MS_sleep => if w_wok w then Some (set_mpc s t MS_load) else None
  | MS_woken =>
      if w_null w then Some (set_mpc (set_syncers s (remove_z t (syncers s))) t MIdle)
      else None                                (* the caller would run its block itself (lane hand-off): not here *)
  (* ---- the bound thread's drain ---- *)
  | MB_tail => Some (match lst L with [] => set_mpc (set_incb s false) t MIdle | _ => set_mpc s t MB_bound end)
  | MB_bound => if bound s then Some (set_mpc s t MB_state) else None
  | MB_state => if nz (f_dq_state_drain_locked_by (st L) t) then Some (set_mpc s t MB_head) else None
  | MB_head => match lst L with e :: _ => if e_linked e then Some (set_mpc s t MB_clr) else None | [] => None end
  | MB_clr => Some (set_mpc s t MB_snap)
  | MB_snap => Some (set_mpc (set_snap (set_lane s (set_lst L [])) (lst L)) t MB_next)
  | MB_next =>
      match snap s with
      | [e] => Some (set_mpc (set_snap s []) t (MB_run (e_id e) (waiter_of s (e_id e)) false))
      | e :: e2 :: r => if e_linked e2
                        then Some (set_mpc (set_snap s (e2 :: r)) t (MB_run (e_id e) (waiter_of s (e_id e)) true))
                        else None
      | [] => None
      end
  | MB_run i wt more =>
      Some (set_mpc (set_mainran (set_lane s (lane_callout_begin L t i)) (i :: mainran s)) t (MB_incall i wt more))
  | MB_incall i wt more =>
      let s1 := set_finished (set_lane s (lane_callout_end L)) (i :: finished s) in
      Some (if wt =? 0 then set_mpc s1 t (MB_loop more)
            else set_mpc (set_ws s1 wt (wset_null (ws s wt) true)) t (MB_sig wt more))
  | MB_sig wt more =>
      let x := ws s wt in
      Some (set_mpc (set_ws s wt (wset_sigd (wset_dte x ((w_dte x + 1) mod 4294967296)) true)) t
                    (if w_dte x =? 0 then MB_loop more else MB_fwake wt more))
  | MB_fwake wt more => Some (set_mpc (set_ws s wt (wset_wok (ws s wt) true)) t (MB_loop more))
  | MB_loop more => Some (set_mpc s t (if more then MB_next else MW_bound 0 false KDrain))
  | MB_ret => Some (set_mpc (set_incb s false) t MIdle)
  (* ---- _dispatch_queue_cleanup2 ---- *)
  | MC_rmw =>
      match queue_cleanup2_loop (st L) with
      | Commit new _ => Some (set_mpc (set_lane s (set_st L new)) t MC_clr)
      | _ => None
      end
  | MC_clr => Some (set_mpc (set_bound s false) t MC_tail)
  | MC_tail => Some (set_mpc s t (match lst L with [] => MC_cbc false | _ => MC_susp end))
  | MC_susp => Some (set_mpc s t (if nz (f_dq_state_is_suspended (st L)) then MC_cbc false else MC_head))
  | MC_head =>
      match lst L with
      | e :: _ => if e_linked e then (if waiter_of s (e_id e) =? 0 then Some (set_mpc s t (MC_cbc true)) else None) else None
      | [] => None
      end
  | MC_cbc tgt =>
      match class_barrier_complete_loop 0 0 0 (if tgt then 1 else 0) SERIAL_OWNED (st L) (if tgt then ENQUEUED else 0) with
      | Commit new _ =>
          if negb (Z.land (Z.lxor (st L) new) ENQUEUED =? 0)
          then Some (set_mpc (set_lane s (set_token (set_pc (set_st L new) t PA_rootpush) (Some (Some t)))) t MC_push)
          else Some (set_mpc (set_lane s (set_st L new)) t MC_close)
      | NoCommit _ _ => Some (set_mpc s t MC_xor)
      | _ => None
      end
  | MC_xor =>
      match class_barrier_complete_dirty_op (st L) with
      | Commit new _ => Some (set_mpc (set_lane s (set_st L new)) t MC_flags)
      | _ => None
      end
  | MC_flags => if bound s then None else Some (set_mpc s t MC_tail)
  | MC_push => match lane_step s t with Some s1 => Some (set_mpc s1 t MC_close) | None => None end
  | MC_close => Some (set_mpc (set_hopen s false) t MC_gone)
  | MC_gone => None
  end.

(* the other continuation after the link of a push onto a non-empty list (_dispatch_main_queue_push :7007-7010: the
   decision is a plain read of the max QoS): dx_wakeup(dq, push_qos, 0) *)
Definition mostep (s : mst) (t : Z) : option mst :=
  match mpcs s t with
  | MIdle => match ostep (lane s) t with Some l => Some (set_lane s l) | None => None end
  | MP_push k =>
      match pcs (lane s) t with
      | PA_link i false q =>
          match lane_step s t with
          | Some s1 => Some (set_mpc (set_snap s1 (link_id (snap s) i)) t (MW_bound (push_qos s q) false k))
          | None => None
          end
      | _ => None
      end
  | _ => None
  end.

(* a sleeper may return from futex_wait at any time (EINTR, spurious) *)
Definition mspur (s : mst) (t : Z) : option mst :=
  match mpcs s t with MS_sleep => Some (set_mpc s t MS_load) | _ => None end.

Inductive mact := MBegin (t : Z) (c : mcall) | MStep (t : Z) | MStepO (t : Z) | MSpur (t : Z).
Definition mstep_rel (s : mst) (a : mact) (s' : mst) : Prop :=
  match a with
  | MBegin t c => valid_tid t /\ mbegin s t c = Some s'
  | MStep t => valid_tid t /\ mstep s t = Some s'
  | MStepO t => valid_tid t /\ mostep s t = Some s'
  | MSpur t => valid_tid t /\ mspur s t = Some s'
  end.
Definition mreach (m prio role_bits : Z) : mst -> Prop := reachable (fun s => s = minit m prio role_bits) mstep_rel.

Fixpoint mrun (s : mst) (acts : list mact) : option mst :=
  match acts with
  | [] => Some s
  | MBegin t c :: r => match mbegin s t c with Some s' => mrun s' r | None => None end
  | MStep t :: r => match mstep s t with Some s' => mrun s' r | None => None end
  | MStepO t :: r => match mostep s t with Some s' => mrun s' r | None => None end
  | MSpur t :: r => match mspur s t with Some s' => mrun s' r | None => None end
  end.
