(* Qos.v — hand-written SPECIFICATION of dispatch_get_global_queue (dispatch/queue.h documentation):
   which identifiers are defined, which class each denotes, the platform clamp of a build without pthread
   QoS support, and the root queue of a class.  The code is Gen_qos (generated). *)
From Coq Require Import ZArith Bool.
From Verif Require Import Word Gen_consts Gen_qos.
Local Open Scope Z_scope.

(* internal class numbers: 1 maintenance, 2 background, 3 utility, 4 default, 5 user-initiated, 6 user-interactive *)
Definition ident_class (p : Z) : option Z :=
  if p =? 2 then Some 5            (* DISPATCH_QUEUE_PRIORITY_HIGH *)
  else if p =? 0 then Some 4       (* DISPATCH_QUEUE_PRIORITY_DEFAULT *)
  else if p =? -2 then Some 3      (* DISPATCH_QUEUE_PRIORITY_LOW *)
  else if p =? -128 then Some 3    (* DISPATCH_QUEUE_PRIORITY_NON_INTERACTIVE (private) *)
  else if p =? -32768 then Some 2  (* DISPATCH_QUEUE_PRIORITY_BACKGROUND *)
  else if p =? 33 then Some 6      (* QOS_CLASS_USER_INTERACTIVE *)
  else if p =? 25 then Some 5      (* QOS_CLASS_USER_INITIATED *)
  else if p =? 21 then Some 4      (* QOS_CLASS_DEFAULT *)
  else if p =? 17 then Some 3      (* QOS_CLASS_UTILITY *)
  else if p =? 9 then Some 2       (* QOS_CLASS_BACKGROUND *)
  else if p =? 5 then Some 1       (* QOS_CLASS_MAINTENANCE *)
  else None.

(* classes the platform supports when HAVE_PTHREAD_WORKQUEUE_QOS = 0 *)
Definition platform_clamp (q : Z) : Z := if q =? 6 then 5 else if q =? 1 then 2 else q.

Definition root_index (q : Z) (overcommit : bool) : Z := 2 * (q - 1) + (if overcommit then 1 else 0).

Definition global_queue_spec (priority flags : Z) : Z :=
  if nz (Z.land flags (not64 DISPATCH_QUEUE_OVERCOMMIT)) then 0
  else match ident_class priority with
       | None => 0
       | Some q => root_queue_addr (root_index (platform_clamp q) (nz (Z.land flags DISPATCH_QUEUE_OVERCOMMIT)))
       end.
