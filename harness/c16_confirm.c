// C16 witness: cancel_and_wait on an activated DATA_ADD source whose installation was deferred (target queue suspended at
// activation) finalizes the source (DSF_DELETED) with ds_is_installed still false; the next invoke then registers the unote
// after DELETED: final du_state != 0, unlike every other cancellation path. prints du_state; exit 1 if non-zero.
#include "internal.h"
static void h(void *c) { (void)c; }
static void noop(void *c) { (void)c; }
int main(void) {
	dispatch_queue_t tq = dispatch_queue_create("tq", DISPATCH_QUEUE_SERIAL);
	dispatch_suspend(tq);
	dispatch_source_t ds = dispatch_source_create(DISPATCH_SOURCE_TYPE_DATA_ADD, 0, 0, tq);
	dispatch_source_set_event_handler_f(ds, h);
	dispatch_activate(ds);
	dispatch_source_cancel_and_wait(ds);
	uint32_t f1 = ds->dq_atomic_flags; int inst1 = ds->ds_is_installed;
	dispatch_resume(tq);
	for (int i = 0; i < 50; i++) { dispatch_sync_f(tq, NULL, noop); usleep(2000); }
	uintptr_t du = ds->ds_refs->du_state;
	printf("after cancel_and_wait: flags=%#x installed=%d; final: flags=%#x installed=%d du_state=%#lx\n", f1, inst1,
			(unsigned)ds->dq_atomic_flags, (int)ds->ds_is_installed, (unsigned long)du);
	return du != 0;
}
