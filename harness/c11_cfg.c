// C11 white-box driver for the arithmetic of src/source.c: #includes source.c (link with exclude_objs=("source.c.o",)).
//   G start interval leeway cur_flags   _dispatch_timer_config_create on a fake timer record whose du_timer_flags = cur_flags
//        -> clock target deadline interval | up1 mono1 wall1 up2 mono2 wall2   (clock readings before / after the call)
//   J start interval leeway animation   _dispatch_interval_config_create (inputs that do not DISPATCH_CLIENT_CRASH)
//        -> clock target deadline interval | clocks as for G
//   H when      dispatch_after_f(when, q, ...) with the final dispatch_activate of _dispatch_after redirected to a recorder
//        -> 0 (dropped) | 1 (plain dispatch_async: the function ran without a timer) | 2 clock target deadline interval flags
//           followed by | up1 mono1 wall1 up2 mono2 wall2
//   T clock back leeway interval prev abs   the library's own _dispatch_source_timer_data (source.c:505: the handler-side
//        catch-up of a timer that fired with the DISARMED marker) on a record whose target is `abs`, or if abs = 0
//        (now on `clock`) - back; -> target deadline data target' deadline' | clocks as for G
#include "internal.h"
static void c11_activate_hook(dispatch_object_t dou);
#define dispatch_activate c11_activate_hook
#include "source.c"
#undef dispatch_activate
#include <inttypes.h>

static int hooked;
static struct dispatch_timer_source_s hv; static unsigned hflags;
static void c11_activate_hook(dispatch_object_t dou)
{
	dispatch_source_t ds = dou._ds;
	if (dx_type(ds) == DISPATCH_SOURCE_KEVENT_TYPE && ds->ds_refs->du_is_timer &&
			(ds->ds_refs->du_timer_flags & DISPATCH_TIMER_AFTER)) {
		hooked = 1;
		hv = ds->ds_timer_refs->dt_timer;
		hflags = ds->ds_timer_refs->du_timer_flags;
		return; // never activated: the source stays inactive (leaked on purpose)
	}
	dispatch_activate(dou);
}
static _Atomic int ran;
static void ran_fn(void *ctx) { ran++; }

static void clocks(uint64_t *o) { o[0] = _dispatch_uptime(); o[1] = _dispatch_monotonic_time(); o[2] = _dispatch_get_nanoseconds(); }

int main(void)
{
	char line[512];
	dispatch_queue_t q = dispatch_queue_create("c11.cfg", NULL);
	while (fgets(line, sizeof line, stdin)) {
		uint64_t c1[3], c2[3];
		if (line[0] == 'G') {
			unsigned long long start, itv, lee, fl;
			sscanf(line + 1, "%llu %llu %llu %llu", &start, &itv, &lee, &fl);
			struct dispatch_timer_source_refs_s dt; memset(&dt, 0, sizeof dt);
			dt.du_timer_flags = (uint8_t)fl; dt.du_is_timer = true;
			clocks(c1);
			dispatch_timer_config_t dtc = _dispatch_timer_config_create(start, itv, lee, &dt);
			clocks(c2);
			printf("%u %" PRIu64 " %" PRIu64 " %" PRIu64 " | ", (unsigned)dtc->dtc_clock, dtc->dtc_timer.target, dtc->dtc_timer.deadline, dtc->dtc_timer.interval);
			free(dtc);
		} else if (line[0] == 'J') {
			// _dispatch_interval_config_create (non-crashing inputs only): J start interval leeway animation(0|1)
			unsigned long long start, itv, lee, anim;
			sscanf(line + 1, "%llu %llu %llu %llu", &start, &itv, &lee, &anim);
			struct dispatch_timer_source_refs_s dt; memset(&dt, 0, sizeof dt);
			dt.du_timer_flags = (uint8_t)(DISPATCH_TIMER_INTERVAL | (anim ? DISPATCH_INTERVAL_UI_ANIMATION : 0)); dt.du_is_timer = true;
			clocks(c1);
			dispatch_timer_config_t dtc = _dispatch_interval_config_create(start, itv, lee, &dt);
			clocks(c2);
			printf("%u %" PRIu64 " %" PRIu64 " %" PRIu64 " | ", (unsigned)dtc->dtc_clock, dtc->dtc_timer.target, dtc->dtc_timer.deadline, dtc->dtc_timer.interval);
			free(dtc);
		} else if (line[0] == 'H') {
			unsigned long long when;
			sscanf(line + 1, "%llu", &when);
			hooked = 0; int before = ran;
			clocks(c1);
			dispatch_after_f(when, q, NULL, ran_fn);
			clocks(c2);
			dispatch_sync_f(q, NULL, ran_fn); ran--; // barrier: an immediately submitted function has run by now
			if (hooked) printf("2 %u %" PRIu64 " %" PRIu64 " %" PRIu64 " %u | ", (hflags >> 2) & 3, hv.target, hv.deadline, hv.interval, hflags);
			else printf("%d | ", ran > before ? 1 : 0);
		} else if (line[0] == 'T') {
			unsigned long long clock, lee, itv, prev, abs; long long back;
			sscanf(line + 1, "%llu %lld %llu %llu %llu %llu", &clock, &back, &lee, &itv, &prev, &abs);
			struct dispatch_timer_source_refs_s dt; memset(&dt, 0, sizeof dt);
			dt.du_is_timer = true; dt.du_ident = (uint32_t)clock; dt.du_timer_flags = (uint8_t)(clock << 2);
			uint64_t n0 = _dispatch_time_now((dispatch_clock_t)clock);
			uint64_t tg = abs ? abs : (uint64_t)((int64_t)n0 - back);
			dt.dt_timer.target = tg; dt.dt_timer.deadline = tg + lee; dt.dt_timer.interval = itv;
			clocks(c1);
			unsigned long data = _dispatch_source_timer_data(&dt, prev);
			clocks(c2);
			printf("%" PRIu64 " %" PRIu64 " %lu %" PRIu64 " %" PRIu64 " | ", tg, (uint64_t)(tg + lee), data, dt.dt_timer.target, dt.dt_timer.deadline);
		} else continue;
		printf("%" PRIu64 " %" PRIu64 " %" PRIu64 " %" PRIu64 " %" PRIu64 " %" PRIu64 "\n", c1[0], c1[1], c1[2], c2[0], c2[1], c2[2]);
		fflush(stdout);
	}
	return 0;
}
