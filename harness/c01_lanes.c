// Stress client with API-level oracles for the lane properties C01-C05 (public API only; schedule perturbation
// through the DISPATCH_VERIF hook).  usage: c01_lanes <seed> <scenario|all> <perturb_permille> <scale>
// Prints one line per scenario run:  OK <name> <stats...>   or   FAIL <property> <name> <what>
// A watchdog prints  FAIL C01 <name> STUCK ...  when a scenario makes no progress for several seconds.
#include <dispatch/dispatch.h>
#include <stdatomic.h>
#include <signal.h>
#include "dv_record.h"
#include <Block.h>

extern void dispatch_async_and_wait_f(dispatch_queue_t, void *, dispatch_function_t);
extern void dispatch_async_and_wait(dispatch_queue_t, dispatch_block_t);
extern void dispatch_queue_set_width(dispatch_queue_t dq, long width);
extern void *dispatch_workloop_create(const char *label);
#ifndef LW_NEWQ   // harness/c01_lanewords.c wraps every queue creation of these scenarios to record the words of the new queue
#define LW_NEWQ(expr) (expr)
#endif

static uint64_t rng_s;
static uint64_t rnd(void) { uint64_t x = rng_s; x ^= x << 13; x ^= x >> 7; x ^= x << 17; return rng_s = x; }
static _Atomic uint64_t stamp;  static uint64_t now(void) { return atomic_fetch_add(&stamp, 1) + 1; }
static const char *cur_scn = "?"; static _Atomic uint64_t progress; static volatile int done_all;
static int nfail;
#define FAIL(prop, ...) do { printf("FAIL %s %s ", prop, cur_scn); printf(__VA_ARGS__); printf("\n"); fflush(stdout); nfail++; } while (0)

static void *watchdog(void *a) {
	(void)a; uint64_t last = 0; int idle = 0;
	while (!done_all) { usleep(250000); uint64_t p = atomic_load(&progress);
		if (p == last) { if (++idle >= 40) { printf("FAIL C01 %s STUCK: no progress for 10s (progress=%llu): submitted work never ran or a synchronous call never returned\n", cur_scn, (unsigned long long)p); fflush(stdout); _exit(3); } }
		else { idle = 0; last = p; } }
	return NULL;
}

// ------------------------------------------------------------------ generic item bookkeeping
typedef struct qinfo { dispatch_queue_t q; _Atomic int inflight; _Atomic int barrier_inflight; int serial; struct qinfo *bottom; const char *name; } qinfo_t;
typedef struct item { qinfo_t *qi; int barrier; int thr; int seq; _Atomic int runs; uint64_t t_submit_begin, t_submit_end, t_start, t_end; uint32_t payload[8]; uint32_t sum; int slow; } item_t;

static void body(void *ctx) {
	item_t *it = (item_t *)ctx; qinfo_t *qi = it->qi;
	it->t_start = now();
	atomic_fetch_add(&it->runs, 1);
	uint32_t s = 0; for (int i = 0; i < 8; i++) s += it->payload[i];
	if (s != it->sum) FAIL("C05", "item of %s saw a stale payload written before its submission (thread %d seq %d)", qi->name, it->thr, it->seq);
	int n = atomic_fetch_add(&qi->inflight, 1) + 1;
	if (it->barrier) atomic_fetch_add(&qi->barrier_inflight, 1);
	if (qi->serial && n != 1) FAIL("C02", "%d items of serial queue %s run at the same time", n, qi->name);
	if (!qi->serial && it->barrier && n != 1) FAIL("C04", "barrier item of %s overlaps %d other item(s)", qi->name, n - 1);
	if (!qi->serial && !it->barrier && atomic_load(&qi->barrier_inflight) > 0) FAIL("C04", "non-barrier item of %s runs during a barrier", qi->name);
	if (qi->bottom && qi->bottom != qi) { int m = atomic_fetch_add(&qi->bottom->inflight, 1) + 1;
		if (m != 1) FAIL("C03", "%d items of the hierarchy under serial queue %s run at the same time (item of %s)", m, qi->bottom->name, qi->name); }
	if (it->slow) usleep((useconds_t)it->slow); else if ((it->seq & 7) == 0) sched_yield();
	if (qi->bottom && qi->bottom != qi) atomic_fetch_sub(&qi->bottom->inflight, 1);
	if (it->barrier) atomic_fetch_sub(&qi->barrier_inflight, 1);
	atomic_fetch_sub(&qi->inflight, 1);
	it->t_end = now();
	atomic_fetch_add(&progress, 1);
}

enum { A_ASYNC, A_SYNC, A_BARRIER_ASYNC, A_BARRIER_SYNC, A_AAW_F, A_AAW_BLOCK, A_AAW_PRIVBLOCK, A_SYNC_PRIVBLOCK, A_GROUP_ASYNC, A_ASYNC_PRIVBLOCK, A_NAPI };
static int is_sync_api(int a) { return a == A_SYNC || a == A_BARRIER_SYNC || a == A_AAW_F || a == A_AAW_BLOCK || a == A_AAW_PRIVBLOCK || a == A_SYNC_PRIVBLOCK; }
static dispatch_group_t g_all;

static void submit(item_t *it, int api) {
	dispatch_queue_t q = it->qi->q;
	for (int i = 0; i < 8; i++) it->payload[i] = (uint32_t)(it->seq * 2654435761u + (unsigned)i * 40503u + (unsigned)it->thr);
	it->sum = 0; for (int i = 0; i < 8; i++) it->sum += it->payload[i];
	it->barrier = (api == A_BARRIER_ASYNC || api == A_BARRIER_SYNC) || it->qi->serial;
	it->t_submit_begin = now();
	switch (api) {
	case A_ASYNC: dispatch_async_f(q, it, body); break;
	case A_SYNC: dispatch_sync_f(q, it, body); break;
	case A_BARRIER_ASYNC: dispatch_barrier_async_f(q, it, body); break;
	case A_BARRIER_SYNC: dispatch_barrier_sync_f(q, it, body); break;
	case A_AAW_F: dispatch_async_and_wait_f(q, it, body); break;
	case A_AAW_BLOCK: dispatch_async_and_wait(q, ^{ body(it); }); break;
	case A_AAW_PRIVBLOCK: { dispatch_block_t b = dispatch_block_create(0, ^{ body(it); }); dispatch_async_and_wait(q, b); Block_release(b); break; }
	case A_SYNC_PRIVBLOCK: { dispatch_block_t b = dispatch_block_create(0, ^{ body(it); }); dispatch_sync(q, b); Block_release(b); break; }
	case A_ASYNC_PRIVBLOCK: { dispatch_block_t b = dispatch_block_create(0, ^{ body(it); }); dispatch_async(q, b); Block_release(b); break; }
	case A_GROUP_ASYNC: dispatch_group_async_f(g_all, q, it, body); break;
	}
	it->t_submit_end = now();
	if (is_sync_api(api)) {
		if (atomic_load(&it->runs) != 1 || it->t_end == 0 || it->t_end > it->t_submit_end)
			FAIL("C05", "synchronous submission (api %d) on %s returned before its item had finished (runs=%d)", api, it->qi->name, atomic_load(&it->runs));
	}
	atomic_fetch_add(&progress, 1);
}

// ------------------------------------------------------------------ scenario: N threads x M items on a set of queues
typedef struct { qinfo_t **qs; int nq; int m; int thr; item_t *items; const int *apis; int napis; uint64_t rng; int slow_every; } work_t;
static pthread_barrier_t startbar;
static void *worker(void *a) {
	work_t *w = (work_t *)a; uint64_t r = w->rng;
	pthread_barrier_wait(&startbar);
	for (int i = 0; i < w->m; i++) {
		r ^= r << 13; r ^= r >> 7; r ^= r << 17;
		item_t *it = &w->items[i]; it->qi = w->qs[(r >> 8) % (unsigned)w->nq]; it->thr = w->thr; it->seq = i;
		it->slow = (w->slow_every && (r >> 20) % (unsigned)w->slow_every == 0) ? (int)((r >> 30) % 300) : 0;
		submit(it, w->apis[(r >> 40) % (unsigned)w->napis]);
	}
	return NULL;
}
static void drain_queue(qinfo_t *qi) { dispatch_barrier_sync_f(qi->q, NULL, (dispatch_function_t)sched_yield); }

static void run_mix(const char *name, qinfo_t **qs, int nq, int nthr, int m, const int *apis, int napis, int slow_every) {
	cur_scn = name;
	pthread_t th[16]; work_t w[16]; if (nthr > 16) nthr = 16;
	pthread_barrier_init(&startbar, NULL, (unsigned)nthr);
	g_all = dispatch_group_create();
	for (int t = 0; t < nthr; t++) { w[t] = (work_t){ qs, nq, m, t, (item_t *)calloc((size_t)m, sizeof(item_t)), apis, napis, rnd() | 1, slow_every };
		pthread_create(&th[t], NULL, worker, &w[t]); }
	for (int t = 0; t < nthr; t++) pthread_join(th[t], NULL);
	dispatch_group_wait(g_all, DISPATCH_TIME_FOREVER);
	// wait until everything submitted has run (each queue drained by a trailing barrier, twice for hierarchies)
	for (int k = 0; k < 2; k++) for (int i = 0; i < nq; i++) drain_queue(qs[i]);
	uint64_t deadline = 0; (void)deadline;
	for (int spin = 0; spin < 20000; spin++) { int missing = 0;
		for (int t = 0; t < nthr; t++) for (int i = 0; i < m; i++) if (atomic_load(&w[t].items[i].runs) == 0) missing++;
		if (!missing) break; usleep(500); }
	long total = 0;
	for (int t = 0; t < nthr; t++) {
		uint64_t last_end[64]; memset(last_end, 0, sizeof last_end);
		for (int i = 0; i < m; i++) { item_t *it = &w[t].items[i]; int r = atomic_load(&it->runs); total++;
			if (r != 1) { FAIL("C01", "item (thread %d seq %d, queue %s) ran %d times", t, i, it->qi->name, r); continue; }
			// per-producer FIFO on a serial queue: this thread's earlier item on the same queue finished before this one started
			int qix = (int)(it->qi - *qs >= 0 ? 0 : 0); (void)qix;
			for (int j = i - 1; j >= 0 && j >= i - 6; j--) { item_t *p = &w[t].items[j];
				if (p->qi == it->qi && it->qi->serial && atomic_load(&p->runs) == 1 && p->t_end > it->t_start)
					FAIL("C02", "items of one thread on serial queue %s ran out of submission order (seq %d started before seq %d ended)", it->qi->name, i, j);
				if (p->qi == it->qi && !it->qi->serial && (p->barrier || it->barrier) && atomic_load(&p->runs) == 1 && p->t_end > it->t_start)
					FAIL("C04", "barrier ordering violated on %s: seq %d (barrier=%d) started before earlier seq %d (barrier=%d) of the same thread ended", it->qi->name, i, it->barrier, j, p->barrier); }
		}
	}
	for (int t = 0; t < nthr; t++) free(w[t].items);
	dispatch_release(g_all);
	printf("OK %s items=%ld threads=%d\n", name, total, nthr); fflush(stdout);
}

static qinfo_t *mkq(const char *name, int serial, dispatch_queue_t target, qinfo_t *bottom, int how) {
	// how: 0 create_with_target, 1 create then set_target (active, legacy retarget), 2 inactive + set_target + activate
	qinfo_t *qi = (qinfo_t *)calloc(1, sizeof *qi); qi->serial = serial; qi->bottom = bottom; qi->name = name;
	dispatch_queue_attr_t a = serial ? DISPATCH_QUEUE_SERIAL : DISPATCH_QUEUE_CONCURRENT;
	if (!target) qi->q = LW_NEWQ(dispatch_queue_create(name, a));
	else if (how == 0) qi->q = LW_NEWQ(dispatch_queue_create_with_target(name, a, target));
	else if (how == 1) { qi->q = LW_NEWQ(dispatch_queue_create(name, a)); dispatch_set_target_queue(qi->q, target); }
	else { qi->q = LW_NEWQ(dispatch_queue_create(name, dispatch_queue_attr_make_initially_inactive(a))); dispatch_set_target_queue(qi->q, target); dispatch_activate(qi->q); }
	return qi;
}

static const int API_ALL[] = { A_ASYNC, A_ASYNC, A_SYNC, A_BARRIER_ASYNC, A_BARRIER_SYNC, A_AAW_F, A_AAW_BLOCK, A_AAW_PRIVBLOCK, A_SYNC_PRIVBLOCK, A_GROUP_ASYNC, A_ASYNC_PRIVBLOCK };
static const int API_SYNCISH[] = { A_SYNC, A_AAW_PRIVBLOCK, A_AAW_F, A_SYNC_PRIVBLOCK, A_BARRIER_SYNC, A_ASYNC };
static const int API_ASYNC[] = { A_ASYNC, A_BARRIER_ASYNC, A_GROUP_ASYNC };

// a blocking barrier + flood that uses up the whole width + a sync reader + a barrier behind it (C04 width accounting)
static dispatch_semaphore_t gate; static void gate_wait(void *c) { (void)c; dispatch_semaphore_wait(gate, DISPATCH_TIME_FOREVER); }
static void noop(void *c) { (void)c; atomic_fetch_add(&progress, 1); }
static volatile int reader_in, barrier_saw_reader;
static void slow_reader(void *c) { (void)c; reader_in = 1; usleep(30000); reader_in = 0; atomic_fetch_add(&progress, 1); }
static void late_barrier(void *c) { (void)c; if (reader_in) barrier_saw_reader = 1; atomic_fetch_add(&progress, 1); }
static void *sync_reader_thread(void *q) { dispatch_sync_f((dispatch_queue_t)q, NULL, slow_reader); return NULL; }
static void scn_width_exhaustion(int flood) {
	cur_scn = "width_exhaustion"; reader_in = barrier_saw_reader = 0;
	dispatch_queue_t q = LW_NEWQ(dispatch_queue_create("wx", DISPATCH_QUEUE_CONCURRENT));
	gate = dispatch_semaphore_create(0);
	dispatch_barrier_async_f(q, NULL, gate_wait);
	for (int i = 0; i < flood; i++) dispatch_async_f(q, NULL, noop);
	pthread_t t; pthread_create(&t, NULL, sync_reader_thread, q); usleep(200000);
	dispatch_barrier_async_f(q, NULL, late_barrier);
	dispatch_semaphore_signal(gate);
	pthread_join(t, NULL); dispatch_barrier_sync_f(q, NULL, noop);
	if (barrier_saw_reader) FAIL("C04", "a barrier ran while an earlier dispatch_sync reader of the same concurrent queue was still running (flood of %d items behind a barrier)", flood);
	printf("OK width_exhaustion flood=%d\n", flood); fflush(stdout);
}

// serial Q -> concurrent T: Q busy, a thread parks in dispatch_sync(Q), a barrier is pending on T (C01 hand-off)
static _Atomic int after_cnt; static void after_fn(void *c) { (void)c; atomic_fetch_add(&after_cnt, 1); atomic_fetch_add(&progress, 1); }
static void busy_fn(void *c) { (void)c; usleep(150000); atomic_fetch_add(&progress, 1); }
static void *sync_thread(void *q) { dispatch_sync_f((dispatch_queue_t)q, NULL, noop); atomic_fetch_add(&progress, 1); return NULL; }
static void scn_handoff_to_concurrent_target(void) {
	cur_scn = "handoff_to_concurrent_target"; atomic_store(&after_cnt, 0);
	dispatch_queue_t T = LW_NEWQ(dispatch_queue_create("hT", DISPATCH_QUEUE_CONCURRENT));
	dispatch_queue_t Q = LW_NEWQ(dispatch_queue_create_with_target("hQ", DISPATCH_QUEUE_SERIAL, T));
	dispatch_async_f(Q, NULL, busy_fn); usleep(20000);
	pthread_t t; pthread_create(&t, NULL, sync_thread, Q); usleep(40000);
	dispatch_barrier_async_f(T, NULL, busy_fn);
	pthread_join(t, NULL);
	for (int i = 0; i < 20; i++) { dispatch_async_f(T, NULL, after_fn); dispatch_async_f(Q, NULL, after_fn); }
	for (int k = 0; k < 8000 && atomic_load(&after_cnt) < 40; k++) usleep(1000);
	if (atomic_load(&after_cnt) != 40) FAIL("C01", "items submitted after a sync hand-off through a serial queue targeting a concurrent queue never ran (%d of 40)", atomic_load(&after_cnt));
	printf("OK handoff_to_concurrent_target\n"); fflush(stdout);
}

// every pool thread blocked in an item that waits for a later item of the same global queue (C01 pool clause)
#define CHAIN 26
static dispatch_semaphore_t chain_sem[128]; static _Atomic int chain_done;
static void chain_fn(void *c) { long i = (long)c; if (i + 1 < CHAIN) dispatch_semaphore_wait(chain_sem[i + 1], DISPATCH_TIME_FOREVER);
	dispatch_semaphore_signal(chain_sem[i]); atomic_fetch_add(&chain_done, 1); atomic_fetch_add(&progress, 1); }
static void scn_pool_blocked(void) {
	cur_scn = "pool_blocked"; atomic_store(&chain_done, 0);
	for (int i = 0; i < CHAIN; i++) chain_sem[i] = dispatch_semaphore_create(0);
	dispatch_queue_t g = dispatch_get_global_queue(DISPATCH_QUEUE_PRIORITY_DEFAULT, 0);
	for (long i = 0; i < CHAIN; i++) dispatch_async_f(g, (void *)i, chain_fn);   // item i waits for item i+1: needs CHAIN threads at once
	for (int k = 0; k < 60000 && atomic_load(&chain_done) < CHAIN; k++) { usleep(1000); if ((k & 1023) == 0) atomic_fetch_add(&progress, 1); }
	if (atomic_load(&chain_done) != CHAIN) FAIL("C01", "global queue stalled: %d of 26 items ran although each only waits for a later item of the same queue", atomic_load(&chain_done));
	printf("OK pool_blocked\n"); fflush(stdout);
}

int main(int argc, char **argv) {
	uint64_t seed = argc > 1 ? strtoull(argv[1], 0, 10) : 1; const char *which = argc > 2 ? argv[2] : "all";
	int permille = argc > 3 ? atoi(argv[3]) : 0; int scale = argc > 4 ? atoi(argv[4]) : 1;
	rng_s = seed * 0x9E3779B97F4A7C15ull + 12345; setvbuf(stdout, NULL, _IOLBF, 0);
	if (permille) dv_install(seed, permille);
	pthread_t wd; pthread_create(&wd, NULL, watchdog, NULL);
#define WANT(n) (!strcmp(which, "all") || !strcmp(which, n))
	if (WANT("serial_mix")) { qinfo_t *q = mkq("s1", 1, NULL, NULL, 0); qinfo_t *qs[] = { q };
		run_mix("serial_mix", qs, 1, 6, 150 * scale, API_ALL, sizeof API_ALL / sizeof *API_ALL, 9); }
	if (WANT("serial_syncish")) { qinfo_t *q = mkq("s2", 1, NULL, NULL, 0); qinfo_t *qs[] = { q };
		run_mix("serial_syncish", qs, 1, 8, 400 * scale, API_SYNCISH, sizeof API_SYNCISH / sizeof *API_SYNCISH, 0); }
	if (WANT("serial_each_api")) for (int a = 0; a < A_NAPI; a++) {   // one API at a time: every path must serialise by itself
		qinfo_t *q = mkq("s3", 1, NULL, NULL, 0); qinfo_t *qs[] = { q }; int one[] = { a };
		char nm[40]; snprintf(nm, sizeof nm, "serial_each_api_%d", a);
		run_mix(strdup(nm), qs, 1, 4, 150 * scale, one, 1, 4); }
	if (WANT("concurrent_each_api")) for (int a = 0; a < A_NAPI; a++) {
		qinfo_t *q = mkq("c3", 0, NULL, NULL, 0); qinfo_t *qs[] = { q }; int two[] = { a, A_BARRIER_ASYNC, a, a };
		char nm[40]; snprintf(nm, sizeof nm, "concurrent_each_api_%d", a);
		run_mix(strdup(nm), qs, 1, 4, 150 * scale, two, 4, 4); }
	if (WANT("concurrent_barriers")) { qinfo_t *q = mkq("c1", 0, NULL, NULL, 0); qinfo_t *qs[] = { q };
		run_mix("concurrent_barriers", qs, 1, 6, 200 * scale, API_ALL, sizeof API_ALL / sizeof *API_ALL, 7); }
	if (WANT("hierarchy")) for (int how = 0; how < 3; how++) {
		qinfo_t *T = mkq("T", 1, NULL, NULL, 0); T->bottom = T;
		qinfo_t *M = mkq("M", 0, T->q, T, how);
		qinfo_t *A = mkq("A", 1, M->q, T, how), *B = mkq("B", 0, T->q, T, how), *C = mkq("C", 1, T->q, T, (how + 1) % 3);
		qinfo_t *qs[] = { T, M, A, B, C };
		char nm[32]; snprintf(nm, sizeof nm, "hierarchy_how%d", how);
		run_mix(strdup(nm), qs, 5, 6, 120 * scale, API_ALL, sizeof API_ALL / sizeof *API_ALL, 5);
		run_mix(strdup(nm), qs + 2, 3, 6, 200 * scale, API_SYNCISH, sizeof API_SYNCISH / sizeof *API_SYNCISH, 3); }
	if (WANT("hierarchy_workloop")) {
		qinfo_t *T = (qinfo_t *)calloc(1, sizeof *T); T->serial = 1; T->name = "WL"; T->q = (dispatch_queue_t)LW_NEWQ(dispatch_workloop_create("WL")); T->bottom = T;
		qinfo_t *A = mkq("wA", 1, T->q, T, 0), *B = mkq("wB", 0, T->q, T, 0), *C = mkq("wC", 1, A->q, T, 0);
		qinfo_t *qs[] = { A, B, C };
		run_mix("hierarchy_workloop", qs, 3, 6, 120 * scale, API_ALL, sizeof API_ALL / sizeof *API_ALL, 5);
		run_mix("hierarchy_workloop", qs, 3, 6, 200 * scale, API_SYNCISH, sizeof API_SYNCISH / sizeof *API_SYNCISH, 3); }
	if (WANT("async_flood")) { qinfo_t *q = mkq("f1", 1, NULL, NULL, 0), *c = mkq("f2", 0, NULL, NULL, 0); qinfo_t *qs[] = { q, c };
		run_mix("async_flood", qs, 2, 8, 1500 * scale, API_ASYNC, sizeof API_ASYNC / sizeof *API_ASYNC, 0); }
	if (WANT("width_exhaustion")) { scn_width_exhaustion(4094); scn_width_exhaustion(100); scn_width_exhaustion(5000); }
	if (WANT("handoff_to_concurrent_target")) for (int i = 0; i < 3; i++) scn_handoff_to_concurrent_target();
	if (WANT("pool_blocked")) scn_pool_blocked();
	done_all = 1;
	printf("DONE failures=%d\n", nfail);
	return nfail ? 1 : 0;
}
