// C19 regression for a defect found by the stress client and fixed in /repo (commit "fix: block objects published
// their target queue in dbpd_queue before retaining it ..."): dispatch_block_wait racing the submission of the same
// block object.  Before the fix this program died with "Over-release of an object" inside dispatch_block_wait within
// the first 200000 iterations (3/3 runs); public API only.
// usage: c19_qref_race <iterations>; exit 0 = no crash; exit 3 = no hand-off completed for 60 s (a wait or a sync that
// never returns).  Iteration-bounded; the watchdog is progress-based (it never fires while hand-offs complete, however
// slowly); the spin loops yield after a short burst so that the two threads make progress on a loaded machine.
#include <dispatch/dispatch.h>
#include <Block.h>
#include <pthread.h>
#include <stdio.h>
#include <stdlib.h>
#include <stdatomic.h>
#include <unistd.h>
#include <sched.h>
static dispatch_block_t db; static dispatch_queue_t q; static _Atomic int go, done_a, done_b; static _Atomic long iter;
static int delay; static long wres;
#define SPIN_UNTIL(cond) do { for (unsigned _n = 0; !(cond); _n++) if (_n > 4000) { sched_yield(); _n = 0; } } while (0)
static void *watchdog(void *a) {
	(void)a; long last = -2; int idle = 0;
	for (;;) {
		usleep(500000);
		long cur = atomic_load(&iter);
		if (cur < 0) return NULL;
		if (cur == last) idle++; else { idle = 0; last = cur; }
		if (idle >= 120) { printf("NOPROGRESS at iteration %ld\n", cur); fflush(stdout); _exit(3); }
	}
}
static void *waiter(void *a) {
	(void)a;
	for (;;) {
		long it = atomic_load(&iter);
		SPIN_UNTIL(atomic_load(&go) == it + 1 || atomic_load(&iter) < 0);
		if (atomic_load(&iter) < 0) return NULL;
		for (volatile int i = 0; i < delay; i++) {}
		wres = dispatch_block_wait(db, DISPATCH_TIME_NOW);
		atomic_store(&done_b, 1);
		SPIN_UNTIL(atomic_load(&iter) != it);
	}
}
int main(int argc, char **argv) {
	long n = argc > 1 ? atol(argv[1]) : 2000000;
	pthread_t th, wd; pthread_create(&th, NULL, waiter, NULL); pthread_create(&wd, NULL, watchdog, NULL);
	for (long it = 0; it < n; it++) {
		q = dispatch_queue_create("c", NULL);
		db = dispatch_block_create(0, ^{});
		delay = (int)(it % 400);
		atomic_store(&done_b, 0);
		atomic_store(&go, (int)(it + 1));
		dispatch_async(q, db);
		SPIN_UNTIL(atomic_load(&done_b));
		if (wres) dispatch_block_wait(db, DISPATCH_TIME_FOREVER); // a block object may be waited for successfully only once
		dispatch_sync(q, ^{});
		Block_release(db); dispatch_release(q);
		atomic_store(&iter, it + 1);
		if (it % 200000 == 0) { printf("iter %ld\n", it); fflush(stdout); }
	}
	atomic_store(&iter, -1);
	printf("no crash in %ld iterations\n", n);
	return 0;
}
