// C15 stress client + recorder (white-box: includes the library's internal.h only to locate ds_pending_data,
// dq_atomic_flags and dq_state of the source and to read them for the stuck detector; every operation goes through
// the public API: dispatch_source_create / set_event_handler_f / merge_data / get_data / suspend / resume / cancel).
// usage: c15_srcdata <seed> <rounds<=20> <perturb_permille>
// One round = one custom data source (kind = ADD / OR / REPLACE, target = serial / concurrent / global / overcommit root queue),
// 2..8 pthreads merging random values, one pthread suspending/resuming, a handler that sometimes sleeps.
// Recorded objects per round r: 3r = ds_pending_data, 3r+1 = dq_atomic_flags, 3r+2 = dq_state; user events carry obj 3r.
// Output:
//   R <round> <kind> <target> <nthreads> <wakeup_qos> <start_suspended>
//   Q <round> reentered=<n> stuck1=<0|1> stuck2=<0|1> pending=<v> state=<v> handler_calls=<n> sentinel=<v>
//   E ... (recorder dump)
#include "internal.h"
#include <inttypes.h>
#include "dv_record.h"

enum { DVX_SUSPEND = 110, DVX_RESUME = 111, DVX_CANCEL = 112, DVX_READY = 113 };
#define MAXT 8
#define MAXR 20
typedef struct {
	int round, kind, target; dispatch_source_t ds; dispatch_queue_t tq;
	_Atomic int inhandler; _Atomic int reentered; _Atomic long calls; _Atomic uint64_t lastdata; _Atomic int saw_sentinel;
	uint64_t sentinel; uint64_t hrng;
} slot_t;
static slot_t slots[MAXR];
typedef struct { slot_t *s; int idx, n; uint64_t rng, last; } targ_t;
static pthread_barrier_t bar;

static inline uint64_t xr(uint64_t *s) { uint64_t x = *s; x ^= x << 13; x ^= x >> 7; x ^= x << 17; return *s = x; }

static void handler(void *ctx) {
	slot_t *s = (slot_t *)ctx;
	if (atomic_fetch_add(&s->inhandler, 1) != 0) atomic_fetch_add(&s->reentered, 1);
	uint64_t data = (uint64_t)dispatch_source_get_data(s->ds);
	dv_user(DVU_CALLOUT_BEGIN, 3 * s->round, data, 0);
	atomic_fetch_add(&s->calls, 1);
	atomic_store(&s->lastdata, data);
	if (s->kind == 2 ? data == s->sentinel : (s->kind == 1 ? (data & s->sentinel) != 0 : 1)) {
		if (s->sentinel) atomic_store(&s->saw_sentinel, 1);
	}
	uint64_t x = data * 0x9E3779B97F4A7C15ull ^ (uint64_t)atomic_load(&s->calls) * 0xBF58476D1CE4E5B9ull;
	x ^= x >> 29;
	if (x % 4 == 0) usleep((useconds_t)(x % 250)); else if (x % 4 == 1) sched_yield();
	dv_user(DVU_CALLOUT_END, 3 * s->round, data, 0);
	atomic_fetch_sub(&s->inhandler, 1);
}

static uint64_t pick(slot_t *s, targ_t *t, int c) {
	uint64_t r = xr(&t->rng);
	if ((r & 15) == 0 || (s->kind == 2 && (r & 7) == 1)) return 0;  // zero merges (REPLACE: they erase a pending value)
	switch (s->kind) {
	case 0: // ADD: small, large and wrap-around-provoking operands (incl. the negation of this thread's previous operand)
		switch ((r >> 4) % 5) {
		case 0: return 1 + (r >> 8) % 9;
		case 4: return (uint64_t)0 - t->last;
		case 1: return r >> 8;
		case 2: return 0xFFFFFFFFFFFFFFFFull - (r >> 8) % 5;
		default: return r | 0x8000000000000000ull;
		}
	case 1: // OR: single bits and small masks, bit 63 reserved for the sentinel
		if ((r >> 4) & 1) return 1ull << ((r >> 8) % 63);
		return (r >> 8) & 0x7FFFFFFFFFFFFFFFull & (0xFFull << ((r >> 40) % 56));
	default: // REPLACE: values unique per (thread, call)
		return ((uint64_t)(t->idx + 1) << 40) | (uint64_t)(c + 1);
	}
}

static void *merger(void *a) {
	targ_t *t = (targ_t *)a; slot_t *s = t->s;
	pthread_barrier_wait(&bar);
	for (int c = 0; c < t->n; c++) {
		uint64_t r = xr(&t->rng);
		if (r % 3 == 0) usleep((useconds_t)((r >> 8) % 150)); else if (r % 3 == 1) sched_yield();
		uint64_t v = pick(s, t, c);
		t->last = v;
		dv_user(DVU_CALL, 3 * s->round, v, 0);
		dispatch_source_merge_data(s->ds, (uintptr_t)v);
		dv_user(DVU_RET, 3 * s->round, 0, 0);
	}
	return NULL;
}

static void *suspender(void *a) {
	targ_t *t = (targ_t *)a; slot_t *s = t->s;
	pthread_barrier_wait(&bar);
	for (int c = 0; c < t->n; c++) {
		uint64_t r = xr(&t->rng);
		usleep((useconds_t)(r % 300));
		int depth = 1 + (int)((r >> 12) % 2);
		for (int d = 0; d < depth; d++) { dispatch_suspend(s->ds); dv_user(DVX_SUSPEND, 3 * s->round, 0, 0); }
		usleep((useconds_t)((r >> 20) % 400));
		for (int d = 0; d < depth; d++) { dv_user(DVX_RESUME, 3 * s->round, 0, 0); dispatch_resume(s->ds); }
	}
	return NULL;
}

static uint64_t rd_pending(slot_t *s) { return *(volatile uint64_t *)&s->ds->ds_refs->ds_pending_data; }
static uint64_t rd_state(slot_t *s) { return *(volatile uint64_t *)&s->ds->dq_state; }
// the source is at rest: nobody holds the drain lock, it is not enqueued, no handler is running (DIRTY may legitimately
// stay set on an idle source: invoke_finish and the suspended unlock leave it, every lock acquirer clears it)
static int at_rest(slot_t *s) {
	uint64_t st = rd_state(s);
	return !(st & (DISPATCH_QUEUE_DRAIN_OWNER_MASK | DISPATCH_QUEUE_ENQUEUED | DISPATCH_QUEUE_ENQUEUED_ON_MGR))
			&& atomic_load(&s->inhandler) == 0;
}
// "stuck" is decided by lack of progress, not by elapsed time (a loaded machine must not look like a lost wakeup): the wait
// gives up only after STUCK_S seconds in which nothing moved -- the recorder's global ticket (every atomic operation of the
// library on the tracked words and every mark takes one), dq_state, ds_pending_data, the handler counters.  LIVE_S bounds a
// source that keeps moving without ever coming to rest (reported the same way; never seen).
#define STUCK_S 12.0
#define LIVE_S 600.0
static double now_s(void) { struct timespec ts; clock_gettime(CLOCK_MONOTONIC, &ts); return (double)ts.tv_sec + 1e-9 * (double)ts.tv_nsec; }
typedef struct { uint64_t seq, st, pe; long calls; int inh; } prog_t;
static prog_t progress(slot_t *s) {
	prog_t p = { atomic_load(&dv_seq), rd_state(s), rd_pending(s), atomic_load(&s->calls), atomic_load(&s->inhandler) };
	return p;
}
static int same_prog(prog_t a, prog_t b) { return a.seq == b.seq && a.st == b.st && a.pe == b.pe && a.calls == b.calls && a.inh == b.inh; }
static int installed_at_rest(slot_t *s) { return s->ds->ds_is_installed && at_rest(s) && !(rd_state(s) >> 55); }
static int delivered(slot_t *s, int want_sentinel) {
	return rd_pending(s) == 0 && at_rest(s) && (!want_sentinel || atomic_load(&s->saw_sentinel));
}
// mode 0: everything delivered; 1: ... and the sentinel seen; 2: activated, installed and at rest.  returns 1 when it became true
static int wait_progress(slot_t *s, int mode) {
	double t0 = now_s(), tlast = t0; prog_t last = progress(s);
	for (;;) {
		if (mode == 2 ? installed_at_rest(s) : delivered(s, mode)) {
			usleep(200);
			if (mode == 2 ? installed_at_rest(s) : (rd_pending(s) == 0 && at_rest(s))) return 1;
		}
		usleep(1000);
		prog_t p = progress(s); double t = now_s();
		if (!same_prog(p, last)) { last = p; tlast = t; }
		if (t - tlast > STUCK_S || t - t0 > LIVE_S) return 0;
	}
}

int main(int argc, char **argv) {
	uint64_t seed = argc > 1 ? strtoull(argv[1], 0, 10) : 1; int nrounds = argc > 2 ? atoi(argv[2]) : 9;
	int permille = argc > 3 ? atoi(argv[3]) : 150;
	if (nrounds > MAXR) nrounds = MAXR;
	dv_install(seed, permille);
	uint64_t r = seed * 6364136223846793005ull + 1442695040888963407ull;
	dispatch_queue_t serialq = dispatch_queue_create("c15.serial", DISPATCH_QUEUE_SERIAL);
	dispatch_queue_t concq = dispatch_queue_create("c15.conc", DISPATCH_QUEUE_CONCURRENT);
	for (int i = 0; i < nrounds; i++) {
		r = r * 6364136223846793005ull + 1442695040888963407ull;
		slot_t *s = &slots[i];
		s->round = i; s->kind = (int)((i + (seed % 3)) % 3); s->target = (int)(((unsigned)i / 3 + (unsigned)(seed / 3)) % 4);
		// target 3: NULL = the default overcommit root queue (no starvation-avoidance re-test after the handler, source.c:810)
		s->tq = s->target == 0 ? serialq : s->target == 1 ? concq : s->target == 2 ? dispatch_get_global_queue(0, 0) : NULL;
		dispatch_source_type_t ty = s->kind == 0 ? DISPATCH_SOURCE_TYPE_DATA_ADD : s->kind == 1 ? DISPATCH_SOURCE_TYPE_DATA_OR
				: DISPATCH_SOURCE_TYPE_DATA_REPLACE;
		s->ds = dispatch_source_create(ty, 0, 0, s->tq);
		dispatch_set_context(s->ds, s);
		dispatch_source_set_event_handler_f(s->ds, handler);
		dv_track(&s->ds->ds_refs->ds_pending_data, sizeof(uint64_t), 3 * i);
		dv_track(&s->ds->dq_atomic_flags, sizeof(s->ds->dq_atomic_flags), 3 * i + 1);
		dv_track(&s->ds->dq_state, sizeof(uint64_t), 3 * i + 2);
		int n = 2 + (int)((r >> 33) % (MAXT - 1));
		int start_suspended = (int)((r >> 50) & 1); // merges racing the activation, or an active source
		printf("R %d %d %d %d %u %d\n", i, s->kind, s->target, n, (unsigned)_dispatch_queue_wakeup_qos(s->ds, 0), start_suspended);
		if (!start_suspended) {
			// an active source: activated, installed by the first invoke and back at rest before anybody touches it; the READY
			// mark (a = dq_state, b = ds_pending_data at that moment) is where the global replay on Model/SrcLane.v starts
			dispatch_activate(s->ds);
			(void)wait_progress(s, 2);
			dv_user(DVX_READY, 3 * i, rd_state(s), rd_pending(s));
		}
		pthread_t th[MAXT + 1]; targ_t ta[MAXT + 1];
		pthread_barrier_init(&bar, NULL, (unsigned)n + 2);
		for (int k = 0; k <= n; k++) {
			ta[k].s = s; ta[k].idx = k; ta[k].last = 0; ta[k].rng = (r ^ ((uint64_t)(k + 1) * 0x9E3779B97F4A7C15ull)) | 1;
			ta[k].n = k < n ? 4 + (int)((r >> (k + 5)) % 28) : 2 + (int)((r >> 40) % 5);
			pthread_create(&th[k], NULL, k < n ? merger : suspender, &ta[k]);
		}
		pthread_barrier_wait(&bar);
		if (start_suspended) { usleep((useconds_t)((r >> 20) % 300)); dispatch_activate(s->ds); }
		for (int k = 0; k <= n; k++) pthread_join(th[k], NULL);
		pthread_barrier_destroy(&bar);
		// everything merged so far must get delivered without any further call
		int ok1 = wait_progress(s, 0);
		uint64_t p1 = rd_pending(s), st1 = rd_state(s);
		// a final non-zero merge on the idle source is delivered (and, for REPLACE, is the last value delivered)
		s->sentinel = s->kind == 0 ? 1 : s->kind == 1 ? (1ull << 63) : 0xABCDEF0000000001ull + (uint64_t)i;
		dv_user(DVU_CALL, 3 * i, s->sentinel, 0);
		dispatch_source_merge_data(s->ds, (uintptr_t)s->sentinel);
		dv_user(DVU_RET, 3 * i, 0, 0);
		int ok2 = wait_progress(s, 1);
		printf("Q %d reentered=%d stuck1=%d stuck2=%d pending=%" PRIu64 " state=%" PRIu64 " handler_calls=%ld sentinel=%" PRIu64
				" pending2=%" PRIu64 " state2=%" PRIu64 " last=%" PRIu64 "\n", i, atomic_load(&s->reentered), !ok1, !ok2, p1, st1,
				atomic_load(&s->calls), s->sentinel, rd_pending(s), rd_state(s), atomic_load(&s->lastdata));
		dv_user(DVX_CANCEL, 3 * i, 0, 0);
		dispatch_source_cancel(s->ds);
		// the source object is kept (never released) so that its addresses stay valid in the recorder's ranges
	}
	usleep(20000);
	fflush(stdout);
	dv_dump(stdout);
	return 0;
}
