// C11 end-to-end oracle through the public API (links libdispatch.so built from /repo's working tree).
// usage: c11_e2e <seed> <scale>      scale 1 = quick (about 1.3 s of real time), larger = more objects
//
// Every check reads the clock the deadline was expressed in (uptime = CLOCK_MONOTONIC, monotonic = CLOCK_BOOTTIME,
// wall = CLOCK_REALTIME on Linux) INSIDE the handler, i.e. after the library decided to fire, and compares with the
// absolute deadline decoded from the dispatch_time_t handed to the library before arming: zero tolerance in the unsafe
// direction (a handler that observes a clock value below its start time is a violation).
//   A  dispatch_after / dispatch_after_f: runs exactly once, never before `when`
//   T  timer sources (one-shot and repeating, three clocks, leeways, ties, suspend/resume churn from another thread):
//      never before start; data >= 1; sum of dispatch_source_get_data so far <= boundaries start + k*interval passed at
//      the handler's clock reading; every live (not cancelled, not suspended) timer whose start has passed fires: the run
//      waits for them with a PROGRESS watchdog (it gives up only after C11_STALL_MS, default 10 s, during which not one
//      of the outstanding objects fired), never with an elapsed-time window; some timers are cancelled from another
//      thread around their fires
//   R  dispatch_source_set_timer replacing the settings in situations where no handler invocation can be in flight:
//      (a) source suspended and its serial target queue drained by a dispatch_sync barrier, (b) serial target queue blocked,
//      (c) from inside the handler; afterwards the handler must follow only the new settings
// output: one line "FAIL <kind> ..." per violated object (first occurrence per object), then "SUMMARY ...".
#include <dispatch/dispatch.h>
#include <stdatomic.h>
#include <stdint.h>
#include <stdio.h>
#include <stdlib.h>
#include <string.h>
#include <time.h>
#include <unistd.h>

static uint64_t rs;
static uint64_t rnd(void) {
	rs += 0x9E3779B97F4A7C15ull; uint64_t z = rs;
	z = (z ^ (z >> 30)) * 0xBF58476D1CE4E5B9ull; z = (z ^ (z >> 27)) * 0x94D049BB133111EBull; return z ^ (z >> 31);
}
static uint64_t below(uint64_t n) { return n ? rnd() % n : 0; }

static uint64_t clk(int c) {
	struct timespec ts;
	clock_gettime(c == 0 ? CLOCK_MONOTONIC : c == 1 ? CLOCK_BOOTTIME : CLOCK_REALTIME, &ts);
	return (uint64_t)ts.tv_sec * NSEC_PER_SEC + (uint64_t)ts.tv_nsec;
}
static dispatch_time_t mk(int c, int64_t d) {
	return c == 0 ? dispatch_time(DISPATCH_TIME_NOW, d) : c == 1 ? dispatch_time(1ull << 63, d)
			: (below(2) ? dispatch_time(DISPATCH_WALLTIME_NOW, d) : dispatch_walltime(NULL, d));
}
static uint64_t decode(int c, dispatch_time_t w) {
	return c == 0 ? (uint64_t)w : c == 1 ? ((uint64_t)w & ~(1ull << 63)) : (uint64_t)(-(int64_t)w);
}
#define MS NSEC_PER_MSEC
static void msleep(unsigned ms) { usleep(ms * 1000); }

// ---------------------------------------------------------------------------------------------------------
struct after_s { int clock; uint64_t deadline; int64_t delay; _Atomic int count; _Atomic int early; _Atomic uint64_t seen; };
static void after_fn(void *p) {
	struct after_s *a = p;
	uint64_t t = clk(a->clock);
	if (t < a->deadline) { a->early++; a->seen = t; }
	a->count++;
}

// ---------------------------------------------------------------------------------------------------------
enum { K_PLAIN, K_SUSP, K_BLOCKQ, K_INHANDLER };
struct tm_s {
	dispatch_source_t ds; dispatch_queue_t q; int clock, kind, id;
	_Atomic uint64_t start, interval, total; // settings the handler is judged against
	_Atomic int fires, early, over, zero, gen; // gen: number of set_timer calls so far
	_Atomic uint64_t bad_t, bad_data, bad_total, last_t, early_t, early_data, early_start;
	int suspended, churn, cancelled;
	uint64_t leeway; int64_t nd; uint64_t ni; // new delay / interval for the reconfiguration
	dispatch_semaphore_t unblock, blocked;
};
#define FOREVER_NS UINT64_MAX
static void reconfigure(struct tm_s *x, int64_t delay, uint64_t interval) {
	dispatch_time_t when = mk(x->clock, delay);
	x->start = decode(x->clock, when);
	x->interval = interval;
	x->total = 0;
	x->gen++;
	dispatch_source_set_timer(x->ds, when, interval == FOREVER_NS ? DISPATCH_TIME_FOREVER : interval, x->leeway);
}
static void on_fire(struct tm_s *x) {
	uint64_t t = clk(x->clock);
	unsigned long data = dispatch_source_get_data(x->ds);
	uint64_t start = x->start, itv = x->interval;
	uint64_t total = (x->total += data);
	x->fires++; x->last_t = t;
	if (t < start) { if (!x->early++) { x->early_t = t; x->early_data = data; x->early_start = start; } return; }
	if (data == 0) x->zero++;
	uint64_t bound = itv == FOREVER_NS ? 1 : (t - start) / itv + 1;
	if (total > bound) { if (!x->over++) { x->bad_t = t; x->bad_data = data; x->bad_total = total; } }
	if (x->kind == K_INHANDLER && x->gen == 1) reconfigure(x, x->nd, x->ni);
}

struct action { uint64_t at; int what; struct tm_s *x; };
enum { ACT_SUSPEND, ACT_RESUME, ACT_RECONF, ACT_BLOCK, ACT_UNBLOCK, ACT_CANCEL };
static int cmp_action(const void *a, const void *b) {
	const struct action *x = a, *y = b; return x->at < y->at ? -1 : x->at > y->at;
}

int main(int argc, char **argv) {
	rs = argc > 1 ? strtoull(argv[1], NULL, 10) : 1;
	int scale = argc > 2 ? atoi(argv[2]) : 1;
	int NA = 150 * scale, NT = 120 * scale, NR = 12 * scale;
	int nfail = 0;
	static const uint64_t ITV[] = { FOREVER_NS, FOREVER_NS, 1 * MS, 2 * MS, 3 * MS, 7 * MS, 20 * MS, 50 * MS, 333333 };
	dispatch_queue_t qs[4];
	for (int i = 0; i < 3; i++) qs[i] = dispatch_queue_create("c11.q", DISPATCH_QUEUE_SERIAL);
	qs[3] = dispatch_get_global_queue(0, 0);

	// A: dispatch_after
	struct after_s *A = calloc((size_t)NA, sizeof *A);
	int64_t tie = (int64_t)below(200) * MS;
	for (int i = 0; i < NA; i++) {
		struct after_s *a = &A[i];
		a->clock = (int)below(3);
		unsigned k = (unsigned)below(10);
		a->delay = k == 0 ? 0 : k == 1 ? -(int64_t)below(5 * MS) : k == 2 ? tie : k == 3 ? (int64_t)below(2 * MS)
				: (int64_t)below(400 * MS);
		dispatch_time_t when = (k == 0 && a->clock == 0 && below(2)) ? DISPATCH_TIME_NOW : mk(a->clock, a->delay);
		a->deadline = when == DISPATCH_TIME_NOW ? 0 : decode(a->clock, when);
		if (below(2)) dispatch_after_f(when, qs[below(4)], a, after_fn);
		else dispatch_after(when, qs[below(4)], ^{ after_fn(a); });
	}

	// T and R: timer sources
	int NX = NT + 3 * NR;
	struct tm_s *X = calloc((size_t)NX, sizeof *X);
	struct action *acts = calloc((size_t)NX * 8, sizeof *acts); int nacts = 0;
	uint64_t t0 = clk(0);
	for (int i = 0; i < NX; i++) {
		struct tm_s *x = &X[i];
		x->id = i; x->clock = (int)below(3);
		x->kind = i < NT ? K_PLAIN : K_SUSP + (i - NT) % 3;
		x->q = x->kind == K_BLOCKQ ? dispatch_queue_create("c11.bq", DISPATCH_QUEUE_SERIAL) : qs[below(3)];
		x->ds = dispatch_source_create(DISPATCH_SOURCE_TYPE_TIMER, 0, 0, x->q);
		x->leeway = (uint64_t[]){ 0, 0, 1 * MS, 10 * MS, 100 * MS }[below(5)];
		dispatch_source_set_event_handler(x->ds, ^{ on_fire(x); });
		if (x->kind == K_PLAIN) {
			int64_t d = below(8) == 0 ? -(int64_t)below(20 * MS) : below(6) == 0 ? tie : (int64_t)below(300 * MS);
			reconfigure(x, d, ITV[below(sizeof ITV / sizeof *ITV)]);
			x->churn = below(3) == 0;
			if (x->churn) { // suspend / resume pairs from the main thread around the fires
				uint64_t at = below(250);
				for (int k = 0; k < 3; k++) {
					acts[nacts++] = (struct action){ at, ACT_SUSPEND, x }; at += 1 + below(60);
					acts[nacts++] = (struct action){ at, ACT_RESUME, x }; at += 1 + below(60);
				}
			} else if (below(6) == 0) { // cancel around the fires
				acts[nacts++] = (struct action){ below(350), ACT_CANCEL, x };
			}
		} else {
			// old settings: due at +30..60 ms (one-shot or fast repeating); replaced at +120..200 ms by a start >= +450 ms
			uint64_t old = 30 + below(30);
			reconfigure(x, (int64_t)(old * MS), below(2) ? FOREVER_NS : (1 + below(5)) * MS);
			x->nd = (int64_t)((250 + below(150)) * MS); x->ni = ITV[below(sizeof ITV / sizeof *ITV)];
			uint64_t hold = x->kind == K_SUSP && below(2) ? old + 10 + below(20) : 5 + below(20); // before or after first fires
			uint64_t re = 120 + below(80);
			if (x->kind == K_SUSP) {
				acts[nacts++] = (struct action){ hold, ACT_SUSPEND, x };
				acts[nacts++] = (struct action){ re, ACT_RECONF, x };
				acts[nacts++] = (struct action){ re + 5 + below(40), ACT_RESUME, x };
			} else if (x->kind == K_BLOCKQ) {
				x->unblock = dispatch_semaphore_create(0); x->blocked = dispatch_semaphore_create(0);
				acts[nacts++] = (struct action){ hold, ACT_BLOCK, x };
				acts[nacts++] = (struct action){ re, ACT_RECONF, x };
				acts[nacts++] = (struct action){ re + 5 + below(40), ACT_UNBLOCK, x };
			}
		}
		dispatch_activate(x->ds);
	}
	qsort(acts, (size_t)nacts, sizeof *acts, cmp_action);
	for (int i = 0; i < nacts; i++) {
		uint64_t now = (clk(0) - t0) / MS;
		if (acts[i].at > now) msleep((unsigned)(acts[i].at - now));
		struct tm_s *x = acts[i].x;
		switch (acts[i].what) {
		case ACT_SUSPEND: dispatch_suspend(x->ds); x->suspended++; break;
		case ACT_RESUME: dispatch_resume(x->ds); x->suspended--; break;
		case ACT_BLOCK:
			dispatch_async(x->q, ^{ dispatch_semaphore_signal(x->blocked); dispatch_semaphore_wait(x->unblock, DISPATCH_TIME_FOREVER); });
			dispatch_semaphore_wait(x->blocked, DISPATCH_TIME_FOREVER);
			break;
		case ACT_UNBLOCK: dispatch_semaphore_signal(x->unblock); break;
		case ACT_CANCEL: dispatch_source_cancel(x->ds); x->cancelled = 1; break;
		case ACT_RECONF:
			// no handler invocation may be in flight when the settings it is judged against change.  Blocked queue: the
			// blocking item is running on the serial target queue, so no invocation is.  Suspended source: an invoke that
			// passed its suspension test before dispatch_suspend may still be on its way to the handler; it runs as an item of
			// the serial target queue, which this barrier waits out (no timing assumption)
			if (x->kind == K_SUSP) dispatch_sync(x->q, ^{});
			reconfigure(x, x->nd, x->ni);
			break;
		}
	}
	// let everything become due: the latest start is about +200 ms (reconf) + 400 ms (a lower bound on the wait only)
	uint64_t end_ms = 760;
	{ uint64_t now = (clk(0) - t0) / MS; if (now < end_ms) msleep((unsigned)(end_ms - now)); }
	// then wait for every object that must fire, with a progress watchdog: give up only when none of the outstanding
	// objects has fired for stall_ms (a loaded machine delays fires, it does not stop all of them for seconds)
	uint64_t stall_ms = getenv("C11_STALL_MS") ? strtoull(getenv("C11_STALL_MS"), NULL, 10) : 10000;
	{
		int last = -1; uint64_t idle_since = clk(0);
		for (;;) {
			int o = 0, future = 0; // due and not yet fired / start not yet reached
			for (int i = 0; i < NA; i++) o += A[i].count == 0;
			for (int i = 0; i < NX; i++) {
				struct tm_s *x = &X[i];
				if (!x->suspended && !x->cancelled && x->total == 0 && (x->kind == K_PLAIN || x->gen == 2)) {
					if (clk(x->clock) > x->start) o++; else future++;
				}
			}
			if (o == 0 && future == 0) break;
			if (last < 0 || o < last || (o == 0 && future)) { last = o; idle_since = clk(0); }
			if ((clk(0) - idle_since) / MS > stall_ms) break;
			msleep(10);
		}
	}
	msleep(150); // room for a second run of a dispatch_after block to show (more load can only hide it, never fake it)

	int a_once = 0, t_fired = 0, r_ok = 0;
	for (int i = 0; i < NA; i++) {
		struct after_s *a = &A[i];
		if (a->early) { nfail++; printf("FAIL after-early clock=%d delay_ns=%lld deadline=%llu handler_clock=%llu\n", a->clock, (long long)a->delay, (unsigned long long)a->deadline, (unsigned long long)a->seen); }
		if (a->count != 1) { nfail++; printf("FAIL after-count clock=%d delay_ns=%lld ran=%d\n", a->clock, (long long)a->delay, a->count); }
		else a_once++;
	}
	for (int i = 0; i < NX; i++) {
		struct tm_s *x = &X[i];
		const char *kind = x->kind == K_PLAIN ? (x->churn ? "timer-churn" : "timer") : x->kind == K_SUSP ? "reconf-suspended"
				: x->kind == K_BLOCKQ ? "reconf-blocked-queue" : "reconf-in-handler";
		if (x->early) { nfail++; printf("FAIL %s-early clock=%d start=%llu handler_clock=%llu early_by_ns=%llu data=%llu interval=%llu set_timer_calls=%d\n", kind, x->clock,
				(unsigned long long)x->early_start, (unsigned long long)x->early_t, (unsigned long long)(x->early_start - x->early_t), (unsigned long long)x->early_data, (unsigned long long)x->interval, x->gen); }
		if (x->over) { nfail++; printf("FAIL %s-count clock=%d start=%llu interval=%llu handler_clock=%llu data=%llu total=%llu boundaries=%llu\n", kind, x->clock,
				(unsigned long long)x->start, (unsigned long long)x->interval, (unsigned long long)x->bad_t, (unsigned long long)x->bad_data, (unsigned long long)x->bad_total,
				(unsigned long long)(x->interval == FOREVER_NS ? 1 : (x->bad_t - x->start) / x->interval + 1)); }
		if (x->zero) { nfail++; printf("FAIL %s-zero-data clock=%d\n", kind, x->clock); }
		uint64_t now = clk(x->clock);
		int due = now > x->start; // the progress watchdog above has given it at least stall_ms since anything last fired
		int expect_new = x->kind != K_PLAIN; // the reconfigured start is always well past by now
		if (!x->suspended && !x->cancelled && due && (x->total == 0) && (x->kind == K_PLAIN || x->gen == 2)) {
			nfail++; printf("FAIL %s-never-fired clock=%d start=%llu now=%llu interval=%llu fires=%d set_timer_calls=%d\n", kind, x->clock,
					(unsigned long long)x->start, (unsigned long long)now, (unsigned long long)x->interval, x->fires, x->gen);
		} else if (x->kind == K_PLAIN) t_fired += x->fires > 0;
		else if (expect_new) r_ok += x->gen == 2 && x->total > 0;
		if (x->kind != K_PLAIN && x->gen != 2) { nfail++; printf("FAIL %s-not-reconfigured fires=%d\n", kind, x->fires); }
	}
	printf("SUMMARY afters=%d once=%d timers=%d fired=%d reconf=%d reconf_fired_with_new_settings=%d failures=%d\n", NA, a_once, NT, t_fired, 3 * NR, r_ok, nfail);
	fflush(stdout);
	_exit(nfail ? 1 : 0);
}
