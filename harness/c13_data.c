// C13 correspondence driver: dispatch_data through the PUBLIC API only (dispatch/data.h), same command language
// as ocaml/c13_driver.ml; one answer line per command, flushed.  Object identities are printed as @pointer tokens
// (opaque; lib/props/c13.py only tests them for equality against the model's object ids).
//   reset | L name kind hex|- | C name a b | S name a off len | M name a | P name a loc | F a | R a | X a | O a stopk loc...
// kinds of leaves: 0 custom destructor block on a serial queue, 1 DISPATCH_DATA_DESTRUCTOR_DEFAULT (copied),
//                  2 DISPATCH_DATA_DESTRUCTOR_FREE, 4 dispatch_data_create_f with a function destructor (serial queue)
// Custom destructors are delivered asynchronously on the serial queue `dq`; it is drained (dispatch_sync_f) after
// every command, so the order printed in d= is the order of the calls.
#include <dispatch/dispatch.h>
#include <inttypes.h>
#include <stdint.h>
#include <stdio.h>
#include <stdlib.h>
#include <string.h>
#include <sys/mman.h>
#include <pthread.h>
#include <unistd.h>

// private/data_private.h; not exported by libdispatch.so on Linux: available only in the white-box (static) build
extern const void *dispatch_data_get_flattened_bytes_4libxpc(dispatch_data_t data) __attribute__((weak));
extern dispatch_data_t dispatch_data_create_f(const void *buffer, size_t size, dispatch_queue_t queue,
		dispatch_function_t destructor);                                               // private/data_private.h (exported)
struct first8 { uint8_t b[8]; };

#define MAXN 8192
static dispatch_data_t H[MAXN];      // name -> object (one harness reference per successful command)
static uint64_t BOUND[MAXN];         // model-free sanity bound on the size of the object (sum of the leaves it can contain)
static int POISON[MAXN];             // size above the bound: never dereference anything obtained from it
static dispatch_queue_t dq;
static unsigned long dlog_[65536]; static size_t ndlog, dlog_seen;
static unsigned dcount[MAXN];

static uint32_t crc_table[256];
static void crc_init(void) {
	for (uint32_t n = 0; n < 256; n++) { uint32_t c = n; for (int k = 0; k < 8; k++) c = (c & 1) ? 0xedb88320u ^ (c >> 1) : c >> 1; crc_table[n] = c; }
}
static uint32_t crc_update(uint32_t c, const uint8_t *p, size_t n) { while (n--) c = crc_table[(c ^ *p++) & 0xff] ^ (c >> 8); return c; }
static void blob(char *out, const uint8_t *p, size_t n) {   // len.crc.first8
	uint32_t c = crc_update(0xffffffffu, p, n) ^ 0xffffffffu;
	int k = sprintf(out, "%zx.%08x.", n, c);
	for (size_t i = 0; i < n && i < 8; i++) k += sprintf(out + k, "%02x", p[i]);
}
static void note_destructor(unsigned long id) { if (ndlog < 65536) dlog_[ndlog++] = id; if (id < MAXN) dcount[id]++; }
static void fn_destructor(void *buffer) {   // kind 4: the id is stored in the 16 bytes before the buffer
	unsigned long id = *(unsigned long *)((char *)buffer - 16);
	note_destructor(id);
	free((char *)buffer - 16);
}
static void noop(void *c) { (void)c; }
static void drain(void) { dispatch_sync_f(dq, NULL, noop); }
static void print_dlog(void) {
	drain();
	printf(" d=");
	for (; dlog_seen < ndlog; dlog_seen++) printf("%lx,", dlog_[dlog_seen]);
}
static size_t hexbytes(const char *s, uint8_t **out) {
	if (s[0] == '-') { *out = NULL; return 0; }
	size_t n = strlen(s) / 2; uint8_t *b = malloc(n ? n : 1);
	for (size_t i = 0; i < n; i++) { unsigned v; sscanf(s + 2 * i, "%2x", &v); b[i] = (uint8_t)v; }
	*out = b; return n;
}

struct acc { char *buf; size_t len, cap; size_t count; size_t stop_at; uint64_t bound; int insane; };
static void acc_printf(struct acc *a, const char *s) {
	size_t n = strlen(s);
	if (a->len + n + 1 > a->cap) { a->cap = (a->len + n + 1) * 2; a->buf = realloc(a->buf, a->cap); }
	memcpy(a->buf + a->len, s, n + 1); a->len += n;
}

static void result(unsigned long name, dispatch_data_t r, uint64_t bound, const char *extra) {
	H[name] = r; BOUND[name] = bound;
	uint64_t sz = r ? dispatch_data_get_size(r) : 0;
	POISON[name] = (!r || sz > bound);
	printf("r id=@%" PRIxPTR " size=%" PRIx64 "%s%s", (uintptr_t)r, sz, extra, POISON[name] ? " insane=1" : "");
	print_dlog();
	printf("\n");
}

static void observe(unsigned long a, unsigned long stopk, char **locs, int nlocs) {
	dispatch_data_t d = H[a];
	uint64_t sz = dispatch_data_get_size(d);
	printf("o size=%" PRIx64, sz);
	if (POISON[a]) { printf(" poisoned\n"); return; }
	// apply: the exact region list
	__block struct acc A = {0}; __block uint64_t total = 0; uint64_t bound = BOUND[a];
	char tmp[96];
	bool res = dispatch_data_apply(d, ^bool(dispatch_data_t region, size_t off, const void *buf, size_t len) {
		char b[64]; char e[192];
		total += len;
		if (len > bound || total > bound) { A.insane = 1; return false; }
		blob(b, buf, len);
		snprintf(e, sizeof e, "%s@%" PRIxPTR ",%zx,%s", A.count ? ";" : "", (uintptr_t)region, off, b);
		acc_printf(&A, e); A.count++;
		return true;
	});
	printf(" ap=%d:%s%s", (int)res, A.buf ? A.buf : "", A.insane ? "!insane" : "");
	free(A.buf);
	if (!A.insane) {
		__block size_t cnt = 0;
		bool r2 = dispatch_data_apply(d, ^bool(dispatch_data_t region, size_t off, const void *buf, size_t len) {
			return cnt++ != stopk;
		});
		printf(" st=%d:%zx", (int)r2, cnt);
		// map
		const void *p = NULL; size_t msz = 0;
		dispatch_data_t m = dispatch_data_create_map(d, &p, &msz);
		if (msz > bound) printf(" map=@%" PRIxPTR ":insane", (uintptr_t)m);
		else { blob(tmp, p, msz); printf(" map=@%" PRIxPTR ":%s", (uintptr_t)m, tmp); }
		if (m) dispatch_release(m);
		// copy_region at the given locations
		printf(" cr=");
		for (int i = 0; i < nlocs; i++) {
			uint64_t loc = strtoull(locs[i], NULL, 16); size_t off = (size_t)-7;
			dispatch_data_t r = dispatch_data_copy_region(d, (size_t)loc, &off);
			uint64_t rsz = r ? dispatch_data_get_size(r) : 0;
			printf("%s%" PRIx64 ":@%" PRIxPTR ":%zx:%" PRIx64 ":", i ? ";" : "", loc, (uintptr_t)r, off, rsz);
			if (!r || rsz > bound) { printf("insane:0"); }
			else {
				__block uint32_t c = 0xffffffffu; __block size_t n = 0, nreg = 0; __block struct first8 first; __block int bad = 0;
				dispatch_data_apply(r, ^bool(dispatch_data_t region, size_t o, const void *buf, size_t len) {
					if (len > bound) { bad = 1; return false; }
					for (size_t k = 0; k < len && n + k < 8; k++) first.b[n + k] = ((const uint8_t *)buf)[k];
					c = crc_update(c, buf, len); n += len; nreg++; return true;
				});
				if (bad) printf("insane:0");
				else {
					printf("%zx.%08x.", n, c ^ 0xffffffffu);
					for (size_t k = 0; k < n && k < 8; k++) printf("%02x", first.b[k]);
					printf(":%zx", nreg);
				}
			}
			if (r) dispatch_release(r);
		}
	}
	print_dlog();
	printf("\n");
}

// progress-based watchdog: a command that makes no progress for WD_SECS seconds (libdispatch sleeps and retries forever when
// an allocation of a garbage size fails) ends the process with exit code 97.  Waiting for input does not count.
#define WD_SECS 40
static volatile unsigned long wd_progress; static volatile int wd_busy;
static void *wd_thread(void *arg) {
	(void)arg; unsigned long last = wd_progress; int still = 0;
	for (;;) {
		sleep(1);
		if (!wd_busy || wd_progress != last) { last = wd_progress; still = 0; continue; }
		if (++still >= WD_SECS) { fflush(stdout); fprintf(stderr, "WATCHDOG: no progress for %d s inside one command\n", WD_SECS); _exit(97); }
	}
	return NULL;
}

int main(void) {
	static char line[1 << 20];
	crc_init();
	{ pthread_t t; pthread_create(&t, NULL, wd_thread, NULL); }
	dq = dispatch_queue_create("c13.destructors", DISPATCH_QUEUE_SERIAL);
	setvbuf(stdout, NULL, _IOFBF, 1 << 16);
	while (fgets(line, sizeof line, stdin)) {
		char *w[64]; int n = 0;
		for (char *t = strtok(line, " \n"); t && n < 64; t = strtok(NULL, " \n")) w[n++] = t;
		if (!n) continue;
		wd_progress++; wd_busy = 1;
		if (!strcmp(w[0], "reset")) {
			drain();
			memset(H, 0, sizeof H); memset(POISON, 0, sizeof POISON); memset(dcount, 0, sizeof dcount);
			H[0] = dispatch_data_empty; BOUND[0] = 0;
			ndlog = dlog_seen = 0;
			printf("ok @%" PRIxPTR "\n", (uintptr_t)dispatch_data_empty);
		} else if (w[0][0] == 'L' && n == 4) {
			unsigned long name = strtoul(w[1], NULL, 16); int kind = atoi(w[2]);
			uint8_t *b; size_t len = hexbytes(w[3], &b);
			if (!b) b = malloc(1);
			dispatch_data_t r;
			if (kind == 0) {
				r = dispatch_data_create(b, len, dq, ^{ note_destructor(name); free(b); });
			} else if (kind == 1) {
				r = dispatch_data_create(b, len, NULL, DISPATCH_DATA_DESTRUCTOR_DEFAULT); free(b);
			} else if (kind == 2) {
				r = dispatch_data_create(b, len, NULL, DISPATCH_DATA_DESTRUCTOR_FREE);
			} else {
				char *blk = malloc(16 + (len ? len : 1)); *(unsigned long *)blk = name; memcpy(blk + 16, b, len); free(b);
				r = dispatch_data_create_f(blk + 16, len, dq, fn_destructor);
			}
			result(name, r, len, "");
		} else if (w[0][0] == 'C' && n == 4) {
			unsigned long name = strtoul(w[1], NULL, 16), a = strtoul(w[2], NULL, 16), b = strtoul(w[3], NULL, 16);
			result(name, dispatch_data_create_concat(H[a], H[b]), BOUND[a] + BOUND[b], "");
		} else if (w[0][0] == 'S' && n == 5) {
			unsigned long name = strtoul(w[1], NULL, 16), a = strtoul(w[2], NULL, 16);
			uint64_t off = strtoull(w[3], NULL, 16), len = strtoull(w[4], NULL, 16);
			result(name, dispatch_data_create_subrange(H[a], (size_t)off, (size_t)len), BOUND[a], "");
		} else if (w[0][0] == 'M' && n == 3) {
			unsigned long name = strtoul(w[1], NULL, 16), a = strtoul(w[2], NULL, 16);
			if (POISON[a]) { H[name] = dispatch_data_empty; BOUND[name] = 0; printf("r skipped\n"); }
			else {
				const void *p = NULL; size_t msz = 0;
				dispatch_data_t m = dispatch_data_create_map(H[a], &p, &msz);
				result(name, m, BOUND[a], "");
			}
		} else if (w[0][0] == 'P' && n == 4) {
			unsigned long name = strtoul(w[1], NULL, 16), a = strtoul(w[2], NULL, 16);
			uint64_t loc = strtoull(w[3], NULL, 16);
			if (POISON[a]) { H[name] = dispatch_data_empty; BOUND[name] = 0; printf("r skipped\n"); }
			else {
				size_t off = (size_t)-7; char extra[64];
				dispatch_data_t r = dispatch_data_copy_region(H[a], (size_t)loc, &off);
				snprintf(extra, sizeof extra, " off=%zx", off);
				result(name, r, BOUND[a], extra);
			}
		} else if (w[0][0] == 'F' && n == 2) {
			unsigned long a = strtoul(w[1], NULL, 16);
			if (!dispatch_data_get_flattened_bytes_4libxpc) { printf("r unsupported\n"); fflush(stdout); wd_busy = 0; continue; }
			if (!POISON[a]) (void)dispatch_data_get_flattened_bytes_4libxpc(H[a]);
			printf("r id=@%" PRIxPTR " size=%zx", (uintptr_t)H[a], dispatch_data_get_size(H[a])); print_dlog(); printf("\n");
		} else if (w[0][0] == 'R' && n == 2) {
			unsigned long a = strtoul(w[1], NULL, 16);
			dispatch_retain(H[a]);
			printf("r id=@%" PRIxPTR " size=%zx", (uintptr_t)H[a], dispatch_data_get_size(H[a])); print_dlog(); printf("\n");
		} else if (w[0][0] == 'X' && n == 2) {
			unsigned long a = strtoul(w[1], NULL, 16);
			printf("r id=@%" PRIxPTR " size=%zx", (uintptr_t)H[a], dispatch_data_get_size(H[a]));
			dispatch_release(H[a]);
			print_dlog(); printf("\n");
		} else if (w[0][0] == 'O' && n >= 3) {
			observe(strtoul(w[1], NULL, 16), strtoul(w[2], NULL, 16), w + 3, n - 3);
		} else if (!strcmp(w[0], "ovf")) {
			// total size 2^64: a 2^46-byte MAP_NORESERVE mapping concatenated with itself 18 times (2^18 records).
			// The last concat must not return an object whose size wrapped (fixed: returns NULL).
			size_t n46 = (size_t)1 << 46;
			void *p = mmap(NULL, n46, PROT_READ, MAP_PRIVATE | MAP_ANONYMOUS | MAP_NORESERVE, -1, 0);
			if (p == MAP_FAILED) { printf("ovf skip\n"); }
			else {
				dispatch_data_t d = dispatch_data_create(p, n46, NULL, ^{ munmap(p, n46); });
				int i; dispatch_data_t e = d;
				for (i = 0; i < 18 && e; i++) {
					e = dispatch_data_create_concat(d, d);
					if (e) { dispatch_release(d); d = e; }
				}
				if (!e) printf("ovf null at=%d size=%zx\n", i, dispatch_data_get_size(d));
				else printf("ovf object size=%zx\n", dispatch_data_get_size(d));
				dispatch_release(d);
			}
		} else if (!strcmp(w[0], "counts")) {   // destructor call counts of all leaves of this case
			drain();
			printf("counts");
			for (unsigned long i = 0; i < MAXN; i++) if (dcount[i]) printf(" %lx:%u", i, dcount[i]);
			printf("\n");
		} else printf("bad\n");
		fflush(stdout);
		wd_progress++; wd_busy = 0;
	}
	memset(H, 0, sizeof H);   // objects a script never released must be unreachable at exit (LeakSanitizer in the ASan tier)
	return 0;
}
