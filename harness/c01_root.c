// C01 (root queue + thread pool) stress client + recorder, white-box only for field offsets and the pool semaphore.
// usage: c01_root <mode> <seed> <perturb_permille> <oc> [size]
//   mode flood    : T threads flood dispatch_async_f on one global queue; every 7th item pushes a nested item from
//                   inside its callout; a final idle phase (>5 s, optional) lets the workers time out and exit, then
//                   a second flood re-creates them
//   mode pingpong : T threads each push one item and wait until it ran before pushing the next (the list flips
//                   between empty and non-empty all the time: last-item cmpxchg race, head-store window)
//   mode blocked  : (ncpu + extra) items block in sem_wait until a releaser item pushed after them has run: every
//                   pool thread is blocked inside a work item that waits for a later item of the same queue
//   oc = 1: the overcommit queue of the same QoS.
// output:
//   "Q ncpu oc off_tail off_pool off_head off_pend off_next off_sema sizeof pool0"
//   "S warmup" (and nothing else) when a single item submitted to an idle global queue did not run within 10 s
//   "I <id> <runs>" for every item whose run count is not exactly 1 (none expected), "N <items> <sum of runs>"
//   "B <waiters> <pool_before> <pool_min> <distinct_worker_threads> <elapsed_ms> <finished>"   (mode blocked)
//   "F <head> <tail> <pending> <pool size> <dsema_value>" the words of the queue when the recording stopped
//   "L <1 if the 25 s budget of a flood / ping-pong run was exhausted>"
//   then the recorder dump: obj 1 = the queue structure, obj 2 = dpq_thread_mediator from dsema_value on,
//   obj 0 = every other atomic of the process (offset = absolute address; the check keeps do_next of queued items).
// harness events: DVU_CALL a=0 (push) b=item id; DVU_RET; DVU_CALLOUT_BEGIN/END a=item id
#include "internal.h"
#include <stddef.h>
#include <semaphore.h>
#include <time.h>
#include "dv_record.h"

#define MAXITEMS 200000
static _Atomic int runs[MAXITEMS];
static _Atomic long total_runs, next_id;
static dispatch_queue_t q;
static dispatch_queue_global_t gq;
static _Atomic long seen_tids[1024]; static _Atomic int nseen;
static double deadline; static _Atomic int deadline_hit;   // wall-clock budget of the run: not a verdict, only keeps a broken library from hanging the check

// The recorder's callback, with the stamp taken FIRST: dv_record.h takes it after looking up / creating the calling thread's
// buffer (malloc + a mutex on a thread's first event), which can delay the stamp of a new pool thread's first operation by
// thousands of events; the whole-run replay on the global model needs stamps that are close to the real order.
static void rq_cb(const volatile void *addr, unsigned size, int kind, int order, unsigned long long a, unsigned long long b,
		int ok, const char *file, int line) {
	(void)file;
	if (!atomic_load_explicit(&dv_enabled, memory_order_relaxed)) return;
	uint64_t ticket = atomic_fetch_add(&dv_seq, 1);
	int saved_errno = errno;
	dv_thr_t *t = dv_me();
	uintptr_t p = (uintptr_t)addr; int n = atomic_load_explicit(&dv_nranges, memory_order_acquire);
	for (int i = n - 1; i >= 0; i--) if (p >= dv_ranges[i].lo && p < dv_ranges[i].hi) {
		if (t->n == t->cap) { t->cap *= 2; t->ev = (dv_ev_t *)realloc(t->ev, t->cap * sizeof(dv_ev_t)); }
		dv_ev_t *e = &t->ev[t->n++];
		e->seq = ticket; e->kind = kind; e->order = order; e->obj = dv_ranges[i].obj; e->off = (long)(p - dv_ranges[i].lo);
		e->size = (int)size; e->a = a; e->b = b; e->ok = ok; e->line = line;
		break;
	}
	if (dv_permille) {
		uint64_t r = dv_rand(t);
		if ((int)(r % 1000) < dv_permille) { if ((r >> 20) & 3) sched_yield(); else usleep((useconds_t)((r >> 24) % 60)); }
	}
	errno = saved_errno;
}
static uint64_t rnd(uint64_t *s) { uint64_t z = (*s += 0x9E3779B97F4A7C15ull); z = (z ^ (z >> 30)) * 0xBF58476D1CE4E5B9ull;
	z = (z ^ (z >> 27)) * 0x94D049BB133111EBull; return z ^ (z >> 31); }
static double now_ms(void) { struct timespec ts; clock_gettime(CLOCK_MONOTONIC, &ts); return ts.tv_sec * 1e3 + ts.tv_nsec / 1e6; }
static int late(void) { if (now_ms() > deadline) { atomic_store(&deadline_hit, 1); return 1; } return 0; }
static void note_tid(void) {
	long t = (long)syscall(SYS_gettid); int n = atomic_load(&nseen);
	for (int i = 0; i < n; i++) if (atomic_load(&seen_tids[i]) == t) return;
	int k = atomic_fetch_add(&nseen, 1); if (k < 1024) atomic_store(&seen_tids[k], t);
}
static void push(long id, dispatch_function_t f) {
	dv_user(DVU_CALL, 1, 0, (unsigned long long)id);
	dispatch_async_f(q, (void *)id, f);
	dv_user(DVU_RET, 1, 0, 0);
}
static void leaf_item(void *ctx) {
	long id = (long)ctx;
	dv_user(DVU_CALLOUT_BEGIN, 1, (unsigned long long)id, 0);
	atomic_fetch_add(&runs[id], 1); atomic_fetch_add(&total_runs, 1);
	dv_user(DVU_CALLOUT_END, 1, (unsigned long long)id, 0);
}
static void work(void *ctx) {
	long id = (long)ctx;
	dv_user(DVU_CALLOUT_BEGIN, 1, (unsigned long long)id, 0);
	atomic_fetch_add(&runs[id], 1); atomic_fetch_add(&total_runs, 1);
	if (id % 7 == 3) { long n = atomic_fetch_add(&next_id, 1); if (n < MAXITEMS) push(n, leaf_item); }
	if (id % 13 == 5) sched_yield();
	dv_user(DVU_CALLOUT_END, 1, (unsigned long long)id, 0);
}
typedef struct { int idx, count; uint64_t rng; } targ_t;
static void *flooder(void *a) {
	targ_t *t = (targ_t *)a;
	for (int i = 0; i < t->count; i++) {
		if (late()) break;
		long id = atomic_fetch_add(&next_id, 1); if (id >= MAXITEMS) break;
		push(id, work);
		uint64_t r = rnd(&t->rng);
		if ((r & 63) == 0) usleep((useconds_t)((r >> 8) % 300)); else if ((r & 15) == 1) sched_yield();
	}
	return NULL;
}
static void *pingponger(void *a) {
	targ_t *t = (targ_t *)a;
	for (int i = 0; i < t->count; i++) {
		if (late()) break;
		long id = atomic_fetch_add(&next_id, 1); if (id >= MAXITEMS) break;
		push(id, leaf_item);
		int spins = 0;
		while (atomic_load(&runs[id]) == 0 && !late()) { if (++spins > 50) usleep(20); else sched_yield(); }
		uint64_t r = rnd(&t->rng);
		if ((r & 7) == 0) usleep((useconds_t)((r >> 8) % 150));
	}
	return NULL;
}
// progress-based: gives up only when no item at all has run for limit_ms (a loaded machine is slow, not stuck)
static void wait_all(long expect, double limit_ms) {
	double t0 = now_ms(); long last = atomic_load(&total_runs), cur;
	while ((cur = atomic_load(&total_runs)) < expect) {
		if (cur != last) { last = cur; t0 = now_ms(); }
		if (now_ms() - t0 >= limit_ms) break;
		usleep(500);
	}
}
// ---- blocked pool
static sem_t gate; static _Atomic int blocked_in, released;
static void waiter(void *ctx) {
	long id = (long)ctx;
	dv_user(DVU_CALLOUT_BEGIN, 1, (unsigned long long)id, 0);
	note_tid();
	atomic_fetch_add(&runs[id], 1); atomic_fetch_add(&total_runs, 1);
	atomic_fetch_add(&blocked_in, 1);
	while (sem_wait(&gate) != 0) {}
	dv_user(DVU_CALLOUT_END, 1, (unsigned long long)id, 0);
}
static void releaser(void *ctx) {
	long id = (long)ctx;
	dv_user(DVU_CALLOUT_BEGIN, 1, (unsigned long long)id, 0);
	note_tid();
	atomic_fetch_add(&runs[id], 1); atomic_fetch_add(&total_runs, 1);
	int n = (int)(id);   // id == number of waiters
	for (int i = 0; i < n; i++) sem_post(&gate);
	atomic_store(&released, 1);
	dv_user(DVU_CALLOUT_END, 1, (unsigned long long)id, 0);
}
static void warm(void *ctx) { atomic_store((_Atomic int *)ctx, 1); }

int main(int argc, char **argv) {
	const char *mode = argc > 1 ? argv[1] : "flood";
	uint64_t seed = argc > 2 ? strtoull(argv[2], 0, 10) : 1;
	int permille = argc > 3 ? atoi(argv[3]) : 100;
	int oc = argc > 4 ? atoi(argv[4]) : 0;
	int size = argc > 5 ? atoi(argv[5]) : 0;
	// initialise the root queues (lazy) through another global queue
	_Atomic int warmed = 0;
	dispatch_async_f(dispatch_get_global_queue(DISPATCH_QUEUE_PRIORITY_HIGH, 0), &warmed, warm);
	{ double w0 = now_ms();
	  while (!atomic_load(&warmed) && now_ms() - w0 < 10000) usleep(100);
	  if (!atomic_load(&warmed)) { printf("S warmup\n"); fflush(stdout); _exit(0); } }   // one item on an idle global queue never ran
	q = dispatch_get_global_queue(DISPATCH_QUEUE_PRIORITY_LOW, oc ? DISPATCH_QUEUE_OVERCOMMIT : 0);
	gq = (dispatch_queue_global_t)q;
	dispatch_pthread_root_queue_context_t pqc = gq->do_ctxt;
	dispatch_semaphore_t sm = &pqc->dpq_thread_mediator;
	long off_sema = (long)((char *)&sm->dsema_sema - (char *)&sm->dsema_value);
	int pool0 = gq->dgq_thread_pool_size;
	printf("Q %d %d %zu %zu %zu %zu %zu %ld %zu %d\n", (int)dispatch_hw_config(active_cpus), oc,
		offsetof(struct dispatch_queue_global_s, dq_items_tail), offsetof(struct dispatch_queue_global_s, dgq_thread_pool_size),
		offsetof(struct dispatch_queue_global_s, dq_items_head), offsetof(struct dispatch_queue_global_s, dgq_pending),
		offsetof(struct dispatch_object_s, do_next), off_sema, sizeof *gq, pool0);
	deadline = now_ms() + 25000;
	dv_install(seed, permille); _dispatch_verif_cb = rq_cb;
	dv_track((void *)0, (size_t)-1, 0);
	dv_track(gq, sizeof *gq, 1);
	dv_track(&sm->dsema_value, (size_t)off_sema + sizeof(sm->dsema_sema), 2);
	uint64_t r = seed * 6364136223846793005ull + 1442695040888963407ull;
	if (!strcmp(mode, "flood") || !strcmp(mode, "pingpong")) {
		int T = 2 + (int)(rnd(&r) % 7); int per = size ? size : 150; int idle = !strcmp(mode, "flood") && argc > 6 && atoi(argv[6]);
		for (int phase = 0; phase < (idle ? 2 : 1); phase++) {
			pthread_t th[16]; targ_t ta[16];
			for (int k = 0; k < T; k++) { ta[k].idx = k; ta[k].count = per; ta[k].rng = rnd(&r);
				pthread_create(&th[k], NULL, !strcmp(mode, "flood") ? flooder : pingponger, &ta[k]); }
			for (int k = 0; k < T; k++) pthread_join(th[k], NULL);
			usleep(20000);
			wait_all(atomic_load(&next_id), 8000);
			if (idle && phase == 0) usleep(5600000);   // workers time out (5 s), give their slots back and exit
		}
		usleep(50000);
	} else if (!strcmp(mode, "blocked")) {
		int extra = size ? size : 3; int ncpu = pool0 > 0 ? pool0 : 1; int W = ncpu + extra;
		if (oc) W = 24;
		sem_init(&gate, 0, 0);
		double t0 = now_ms(); int pool_min = pool0;
		for (long i = 0; i < W; i++) push(i, waiter);
		push(W, releaser);       // id == W
		atomic_store(&next_id, W + 1);
		while (!atomic_load(&released) && now_ms() - t0 < 60000) {
			int p = gq->dgq_thread_pool_size; if (p < pool_min) pool_min = p; usleep(2000);
		}
		wait_all(W + 1, 5000);
		usleep(20000);
		printf("B %d %d %d %d %.0f %d\n", W, pool0, pool_min, atomic_load(&nseen), now_ms() - t0, atomic_load(&released));
	}
	atomic_store(&dv_enabled, 0);
	long n = atomic_load(&next_id), sum = 0;
	for (long i = 0; i < n && i < MAXITEMS; i++) { int c = atomic_load(&runs[i]); sum += c; if (c != 1) printf("I %ld %d\n", i, c); }
	{ dispatch_pthread_root_queue_context_t pqc2 = gq->do_ctxt; dispatch_semaphore_t sm2 = &pqc2->dpq_thread_mediator;
	  printf("F %llu %llu %d %d %ld\n", (unsigned long long)(uintptr_t)gq->dq_items_head, (unsigned long long)(uintptr_t)gq->dq_items_tail,
		gq->dgq_pending, gq->dgq_thread_pool_size, (long)sm2->dsema_value); }   // the words of the queue when the recording stopped
	printf("N %ld %ld\n", n, sum);
	printf("L %d\n", atomic_load(&deadline_hit));
	dv_dump(stdout);
	fflush(stdout);
	_exit(0);
}
