// C19 stress client + recorder (white-box: the library's internal.h is used for _dispatch_block_get_data, the layout
// of dispatch_block_private_data_s / dispatch_group_s and, in PERFORM rounds, for _dispatch_block_invoke_direct on a
// private-data record built with the library's own DISPATCH_BLOCK_PRIVATE_DATA_PERFORM_INITIALIZER; every other
// operation goes through the public API: dispatch_block_create*, dispatch_async / dispatch_barrier_async /
// dispatch_group_async / dispatch_sync / direct call / dispatch_block_perform, dispatch_block_cancel / _testcancel /
// _wait / _notify).
// usage: c19_block <seed> <rounds> <perturb_permille>
// One block object per round.  Round kinds:
//   0 single: ONE invocation (async on a global / serial / suspended serial / concurrent queue, barrier_async,
//     group_async, sync, direct call, or never submitted) whose body can be held on a semaphore, with scripted
//     cancel / testcancel / wait(NOW, timed 100us-20ms, FOREVER) / notify calls issued from helper threads at
//     controlled phases (0 before start, 1 while the body runs, 2 after the end) or racing (no control);
//   1 multi: several threads call the block object directly several times (plus async submissions), racing
//     cancel / testcancel (no wait / notify: the library forbids run-more-than-once together with wait);
//   2 perform: _dispatch_block_invoke_direct on a DBF_PERFORM record (optionally with DBF_CANCELED preset), and the
//     public dispatch_block_perform (stamps only: its record lives on the library's stack);
//   3 lost-cancel: a timed wait on a block that cannot complete yet times out while a cancel lands inside it;
//     then testcancel, then the block is submitted (must not run its body, must complete for waiter and notifier).
//   5 dispose: the LAST reference of the block object is released (Block_release -> destructor of the private data,
//     src/block.cpp) after observers have registered notifications / waited with a timeout / cancelled: either the
//     object was never executed (the destructor leaves the group: the notifications are submitted although nothing
//     completed) or it was executed once (the destructor leaves nothing).  Every other round leaks its object.
//   4 slot: the dbpd_queue slot is already occupied when the same object is submitted again (async and sync: the
//     cmpxchg fails and the references are given back) and is emptied by another invocation before a held
//     dispatch_sync invocation finishes (its xchg finds NULL).
// output: "L <offsets>" layout line, one "R ..." line per round, then the recorder dump.  Recorded objects:
//   obj = 2*round     the private data record (offset = byte offset inside dispatch_block_private_data_s)
//   obj = 2*round + 1 the dg_state word (8 bytes: dg_bits at +0, dg_gen at +4) of the private group
// Harness events (dv_user): DVU_CALL a=op b=arg, DVU_RET a=result b=aux, DVU_CALLOUT_BEGIN/END (body),
//   DVU_MARK a=1000+id (notification block id started), a=1 (queue resumed), a=2 (phase change, b=phase).
#include "internal.h"
#include <signal.h>
#include <errno.h>
#include <semaphore.h>
#include "dv_record.h"

enum { OP_DIRECT = 1, OP_SYNC = 2, OP_ASYNC = 3, OP_CANCEL = 5, OP_TESTCANCEL = 6, OP_WAIT = 7, OP_NOTIFY = 8,
	OP_PERFORM_PUBLIC = 9, OP_RELEASE = 10 };
enum { S_ASYNC_GLOBAL, S_ASYNC_SERIAL, S_ASYNC_SUSPENDED, S_BARRIER_ASYNC, S_GROUP_ASYNC, S_GROUP_ASYNC_SUSPENDED,
	S_SYNC, S_SYNC_SUSPENDED, S_DIRECT, S_NEVER, S_COUNT };

_Static_assert(offsetof(struct dispatch_block_private_data_s, dbpd_atomic_flags) == 16, "OFF_FLAGS");
_Static_assert(offsetof(struct dispatch_block_private_data_s, dbpd_performed) == 20, "OFF_PERF");
_Static_assert(offsetof(struct dispatch_block_private_data_s, dbpd_queue) == 56, "OFF_QUEUE");
_Static_assert(offsetof(struct dispatch_block_private_data_s, dbpd_thread) == 64, "OFF_THREAD");
_Static_assert(sizeof(((struct dispatch_block_private_data_s *)0)->dbpd_atomic_flags) == 4, "flags size");
_Static_assert(sizeof(((struct dispatch_block_private_data_s *)0)->dbpd_performed) == 4, "performed size");

// ---- address table (dv_record.h tracks at most 64 ranges; a run here tracks two per round, never untracked)
#define HT_SZ (1u << 19)
typedef struct { _Atomic uintptr_t key; int obj; long off; } ht_t;
static ht_t *ht;
static inline unsigned ht_hash(uintptr_t p) { return (unsigned)((p >> 2) * 0x9E3779B97F4A7C15ull >> 40) & (HT_SZ - 1); }
static void ht_track(const volatile void *base, size_t len, int obj) {
	for (size_t o = 0; o < len; o += 4) {
		uintptr_t p = (uintptr_t)base + o; unsigned h = ht_hash(p);
		while (atomic_load(&ht[h].key) && atomic_load(&ht[h].key) != p) h = (h + 1) & (HT_SZ - 1);
		ht[h].obj = obj; ht[h].off = (long)o; atomic_store_explicit(&ht[h].key, p, memory_order_release);
	}
}
static void ht_untrack(const volatile void *base, size_t len) {
	for (size_t o = 0; o < len; o += 4) {
		uintptr_t p = (uintptr_t)base + o; unsigned h = ht_hash(p);
		while (atomic_load(&ht[h].key) && atomic_load(&ht[h].key) != p) h = (h + 1) & (HT_SZ - 1);
		if (atomic_load(&ht[h].key) == p) ht[h].obj = -1;      // the memory is free: whatever reuses it is not recorded
	}
}
static void c19_cb(const volatile void *addr, unsigned size, int kind, int order, unsigned long long a, unsigned long long b,
		int ok, const char *file, int line) {
	(void)file;
	if (!atomic_load_explicit(&dv_enabled, memory_order_relaxed)) return;
	dv_thr_t *t = dv_me();
	uintptr_t p = (uintptr_t)addr; unsigned h = ht_hash(p);
	for (;;) {
		uintptr_t k = atomic_load_explicit(&ht[h].key, memory_order_acquire);
		if (!k) break;
		if (k == p) { if (ht[h].obj >= 0) dv_push(t, kind, order, ht[h].obj, ht[h].off, (int)size, a, b, ok, line); break; }
		h = (h + 1) & (HT_SZ - 1);
	}
	if (dv_permille) {
		uint64_t r = dv_rand(t);
		if ((int)(r % 1000) < dv_permille) { if ((r >> 20) & 3) sched_yield(); else usleep((useconds_t)((r >> 24) % 60)); }
	}
}

// ---- rounds
#define MAXH 6
#define MAXOPS 8
#define MAXNOT 16
typedef struct { int phase, op, arg, blocking; } sop_t;
typedef struct round_s round_t;
typedef struct { round_t *r; int idx, nops; sop_t ops[MAXOPS]; uint64_t rng; pthread_t th; } helper_t;
struct round_s {
	int k, kind, subm, hold, nhelpers; unsigned long flags;
	dispatch_block_t db; dispatch_block_private_data_t dbpd; dispatch_queue_t q, nq; dispatch_group_t ug;
	sem_t gate; _Atomic int phase, body_runs, in_body, entered, pend[3], go_submit, invocations, cancels, nnotif, waited_ok;
	_Atomic int notif_runs[MAXNOT]; _Atomic int wait_zero, wait_nonzero, wait_early, tc_zero_after_cancel;
	_Atomic uint64_t cancel_ret_seq;    // 0 = no cancel has returned yet (stamp + 1 otherwise)
	pthread_mutex_t wmu; helper_t h[MAXH]; uint64_t rng;
	int released; unsigned sv_flags; int sv_perf, sv_queue;      // kind 5: the words just before the last release
};
static inline uint64_t xr(uint64_t *s) { uint64_t x = *s; x ^= x << 13; x ^= x >> 7; x ^= x << 17; return *s = x; }
static uint64_t now_stamp(void) { return atomic_load(&dv_seq); }

static void body(round_t *r) {
	dv_user(DVU_CALLOUT_BEGIN, 2 * r->k, 0, 0);
	atomic_fetch_add(&r->body_runs, 1); atomic_fetch_add(&r->in_body, 1);
	if (r->hold && atomic_fetch_add(&r->entered, 1) == 0) { while (sem_wait(&r->gate) != 0 && errno == EINTR) {} sem_post(&r->gate); }
	else { uint64_t x = (uint64_t)r->k * 2654435761u; if (x % 3 == 0) usleep((useconds_t)(x % 200)); else if (x % 3 == 1) sched_yield(); }
	atomic_fetch_sub(&r->in_body, 1);
	dv_user(DVU_CALLOUT_END, 2 * r->k, 0, 0);
}
static void do_cancel(round_t *r) {
	dv_user(DVU_CALL, 2 * r->k, OP_CANCEL, 0); dispatch_block_cancel(r->db); dv_user(DVU_RET, 2 * r->k, 0, 0);
	uint64_t z = 0; atomic_compare_exchange_strong(&r->cancel_ret_seq, &z, now_stamp() + 1);
	atomic_fetch_add(&r->cancels, 1);
}
static void do_testcancel(round_t *r) {
	int after = atomic_load(&r->cancel_ret_seq) != 0;   // a cancel had returned before this call began
	dv_user(DVU_CALL, 2 * r->k, OP_TESTCANCEL, (unsigned long long)after);
	long v = dispatch_block_testcancel(r->db);
	dv_user(DVU_RET, 2 * r->k, (unsigned long long)v, (unsigned long long)after);
	if (after && !v) atomic_fetch_add(&r->tc_zero_after_cancel, 1);
}
// arg: 0 = DISPATCH_TIME_NOW, -1 = FOREVER, n > 0 = n microseconds
static void do_wait(round_t *r, int arg) {
	if (pthread_mutex_trylock(&r->wmu) != 0) return;        // the library allows one waiter at a time
	if (!atomic_load(&r->waited_ok)) {
		dispatch_time_t tmo = arg == 0 ? DISPATCH_TIME_NOW : arg < 0 ? DISPATCH_TIME_FOREVER :
				dispatch_time(DISPATCH_TIME_NOW, (int64_t)arg * 1000);
		dv_user(DVU_CALL, 2 * r->k, OP_WAIT, (unsigned long long)tmo);
		long v = dispatch_block_wait(r->db, tmo);
		// judged with the library's own clock: a non-zero return must not come before the deadline
		int ok = 1;
		if (v != 0) { if (arg < 0) ok = 0; else if (arg > 0 && dispatch_time(DISPATCH_TIME_NOW, 0) < tmo) ok = 0; }
		dv_user(DVU_RET, 2 * r->k, (unsigned long long)v, (unsigned long long)ok);
		if (v == 0) { atomic_store(&r->waited_ok, 1); atomic_fetch_add(&r->wait_zero, 1); }
		else { atomic_fetch_add(&r->wait_nonzero, 1); if (!ok) atomic_fetch_add(&r->wait_early, 1); }
	}
	pthread_mutex_unlock(&r->wmu);
}
static void do_notify(round_t *r) {
	int id = atomic_fetch_add(&r->nnotif, 1);
	if (id >= MAXNOT) { atomic_fetch_sub(&r->nnotif, 1); return; }
	int k = r->k;
	dv_user(DVU_CALL, 2 * k, OP_NOTIFY, (unsigned long long)id);
	dispatch_block_notify(r->db, r->nq, ^{ dv_user(DVU_MARK, 2 * k, 1000 + (unsigned long long)id, 0);
		atomic_fetch_add(&r->notif_runs[id], 1); });
	dv_user(DVU_RET, 2 * k, 0, 0);
}
static void do_direct(round_t *r) {
	atomic_fetch_add(&r->invocations, 1);
	dv_user(DVU_CALL, 2 * r->k, OP_DIRECT, 0); r->db(); dv_user(DVU_RET, 2 * r->k, 0, 0);
}
static void do_sync(round_t *r) {
	atomic_fetch_add(&r->invocations, 1);
	dv_user(DVU_CALL, 2 * r->k, OP_SYNC, 0); dispatch_sync(r->q, r->db); dv_user(DVU_RET, 2 * r->k, 0, 0);
}
static void do_async(round_t *r, dispatch_queue_t q, int how) {
	atomic_fetch_add(&r->invocations, 1);
	dv_user(DVU_CALL, 2 * r->k, OP_ASYNC, (unsigned long long)how);
	if (how == 1) dispatch_barrier_async(q, r->db); else if (how == 2) dispatch_group_async(r->ug, q, r->db);
	else dispatch_async(q, r->db);
	dv_user(DVU_RET, 2 * r->k, 0, 0);
}
static void run_op(round_t *r, sop_t *o) {
	switch (o->op) {
	case OP_CANCEL: do_cancel(r); break;
	case OP_TESTCANCEL: do_testcancel(r); break;
	case OP_WAIT: do_wait(r, o->arg); break;
	case OP_NOTIFY: do_notify(r); break;
	case OP_DIRECT: do_direct(r); break;
	case OP_SYNC: do_sync(r); break;
	case OP_ASYNC: do_async(r, dispatch_get_global_queue(0, 0), 0); break;
	}
}
static void *helper(void *a) {
	helper_t *h = (helper_t *)a; round_t *r = h->r;
	for (int i = 0; i < h->nops; i++) {
		sop_t *o = &h->ops[i];
		if (o->phase >= 0) { while (atomic_load(&r->phase) < o->phase) usleep(20); }
		else usleep((useconds_t)(xr(&h->rng) % 400));
		run_op(r, o);
		if (o->phase >= 0 && !o->blocking) atomic_fetch_sub(&r->pend[o->phase], 1);
	}
	return NULL;
}
// bounded waits: generous (they only bound how long a broken library is waited for) and scaled by C19_SLOW for the
// isolated re-run that lib/props/c19.py makes before a `stuck` / hang becomes a verdict
static int g_slow = 1;
static int wait_until(_Atomic int *v, int atleast, int ms) {
	ms *= 4 * g_slow;
	for (int i = 0; i < ms * 20; i++) { if (atomic_load(v) >= atleast) return 1; usleep(50); }
	return atomic_load(v) >= atleast;
}
static int wait_zero(_Atomic int *v, int ms) {
	ms *= 4 * g_slow;
	for (int i = 0; i < ms * 20; i++) { if (atomic_load(v) <= 0) return 1; usleep(50); }
	return atomic_load(v) <= 0;
}
static int performed(round_t *r) { return r->released ? r->sv_perf : *(volatile int *)&r->dbpd->dbpd_performed; }
static int wait_performed(round_t *r, int n, int ms) {
	ms *= 4 * g_slow;
	for (int i = 0; i < ms * 20; i++) { if (performed(r) >= n) return 1; usleep(50); }
	return performed(r) >= n;
}
static _Atomic int wd_subm;
static void set_phase(round_t *r, int p) { atomic_store(&wd_subm, r->subm); atomic_store(&r->phase, p); dv_user(DVU_MARK, 2 * r->k, 2, (unsigned long long)p); }

static const unsigned long FLAGSETS[] = { 0, 0, 0, DISPATCH_BLOCK_BARRIER, DISPATCH_BLOCK_DETACHED, DISPATCH_BLOCK_ASSIGN_CURRENT,
	DISPATCH_BLOCK_NO_QOS_CLASS, DISPATCH_BLOCK_INHERIT_QOS_CLASS, DISPATCH_BLOCK_ENFORCE_QOS_CLASS,
	DISPATCH_BLOCK_BARRIER | DISPATCH_BLOCK_ENFORCE_QOS_CLASS, DISPATCH_BLOCK_DETACHED | DISPATCH_BLOCK_ASSIGN_CURRENT,
	DISPATCH_BLOCK_ASSIGN_CURRENT | DISPATCH_BLOCK_INHERIT_QOS_CLASS | DISPATCH_BLOCK_BARRIER };

static void make_block(round_t *r) {
	r->flags = FLAGSETS[xr(&r->rng) % (sizeof FLAGSETS / sizeof FLAGSETS[0])];
	if (xr(&r->rng) % 5 == 0) r->db = dispatch_block_create_with_qos_class((dispatch_block_flags_t)r->flags, QOS_CLASS_UTILITY, -(int)(xr(&r->rng) % 4), ^{ body(r); });
	else r->db = dispatch_block_create((dispatch_block_flags_t)r->flags, ^{ body(r); });
	r->dbpd = _dispatch_block_get_data(r->db);
	ht_track(r->dbpd, sizeof(struct dispatch_block_private_data_s), 2 * r->k);
	ht_track(&r->dbpd->dbpd_group->dg_state, 8, 2 * r->k + 1);
}
static void add_op(round_t *r, int hi, int phase, int op, int arg, int blocking) {
	helper_t *h = &r->h[hi]; if (h->nops >= MAXOPS) return;
	h->ops[h->nops++] = (sop_t){ phase, op, arg, blocking };
}
// a helper runs its script in order: sort it by phase (racing operations first); the orchestrator waits for the
// non-blocking operations of a phase, and whatever follows a possibly blocking operation in the same script cannot
// be waited for
static void finish_scripts(round_t *r) {
	for (int i = 0; i < r->nhelpers; i++) {
		helper_t *h = &r->h[i];
		for (int a = 1; a < h->nops; a++) { sop_t x = h->ops[a]; int b = a - 1;
			while (b >= 0 && h->ops[b].phase > x.phase) { h->ops[b + 1] = h->ops[b]; b--; } h->ops[b + 1] = x; }
		int blk = 0;
		for (int a = 0; a < h->nops; a++) {
			if (blk) h->ops[a].blocking = 1;
			if (h->ops[a].blocking) blk = 1;
			if (h->ops[a].phase >= 0 && !h->ops[a].blocking) atomic_fetch_add(&r->pend[h->ops[a].phase], 1);
		}
	}
}
static void print_round(round_t *r, int completed_expected, int stuck) {
	int nn = atomic_load(&r->nnotif); if (nn > MAXNOT) nn = MAXNOT;
	printf("R %d kind=%d subm=%d flags=%lu hold=%d inv=%d body=%d performed=%d cancels=%d wz=%d wnz=%d wearly=%d tczero=%d "
			"expect_done=%d stuck=%d finalflags=%u finalqueue=%d nnotif=%d runs=", r->k, r->kind, r->subm, r->flags, r->hold,
			atomic_load(&r->invocations), atomic_load(&r->body_runs), performed(r), atomic_load(&r->cancels),
			atomic_load(&r->wait_zero), atomic_load(&r->wait_nonzero), atomic_load(&r->wait_early),
			atomic_load(&r->tc_zero_after_cancel), completed_expected, stuck,
			r->released ? r->sv_flags : r->dbpd->dbpd_atomic_flags, r->released ? r->sv_queue : (r->dbpd->dbpd_queue != NULL), nn);
	for (int i = 0; i < nn; i++) printf("%d,", atomic_load(&r->notif_runs[i]));
	printf(" released=%d\n", r->released);
}
static int timed_arg(uint64_t *rng) { static const int T[] = { 100, 300, 1000, 3000, 8000, 20000 }; return T[xr(rng) % 6]; }

// kind 0: one invocation, phased operations
static void round_single(round_t *r) {
	uint64_t *g = &r->rng;
	r->subm = (int)(xr(g) % S_COUNT); r->hold = (xr(g) % 4) != 0;
	r->q = r->subm == S_ASYNC_GLOBAL ? dispatch_get_global_queue(0, 0) :
			r->subm == S_BARRIER_ASYNC ? dispatch_queue_create("c19.conc", DISPATCH_QUEUE_CONCURRENT) :
			dispatch_queue_create("c19.serial", NULL);
	r->nq = (xr(g) & 1) ? dispatch_get_global_queue(0, 0) : dispatch_queue_create("c19.notify", NULL);
	r->ug = dispatch_group_create();
	make_block(r);
	int suspended = r->subm == S_ASYNC_SUSPENDED || r->subm == S_GROUP_ASYNC_SUSPENDED || r->subm == S_SYNC_SUSPENDED;
	int never = r->subm == S_NEVER;
	// scripts: helper 0 performs the synchronous submissions; helpers 1.. perform the observers' operations
	r->nhelpers = 2 + (int)(xr(g) % (MAXH - 1));
	for (int i = 0; i < r->nhelpers; i++) { r->h[i].r = r; r->h[i].idx = i; r->h[i].rng = xr(g) | 1; }
	int nops = 2 + (int)(xr(g) % 8);
	int cancel_before = (xr(g) % 5) == 0;        // a cancel that has returned before the block can start
	int cancels_allowed = cancel_before || (xr(g) % 2) == 0;
	if (cancel_before) add_op(r, 1, 0, OP_CANCEL, 0, 0);
	for (int i = 0; i < nops; i++) {
		int hi = 1 + (int)(xr(g) % (unsigned)(r->nhelpers - 1));
		int phase = (int)(xr(g) % 4) - 1;          // -1 racing, 0, 1, 2
		if (phase == 1 && !r->hold) phase = -1;
		unsigned c = (unsigned)(xr(g) % 10);
		if (c < 2 && cancels_allowed) add_op(r, hi, phase, OP_CANCEL, 0, 0);
		else if (c < 4) add_op(r, hi, phase, OP_TESTCANCEL, 0, 0);
		else if (c < 6) add_op(r, hi, phase, OP_NOTIFY, 0, 0);
		else if (c < 7) add_op(r, hi, phase, OP_WAIT, 0, 0);
		else if (c < 9) add_op(r, hi, phase, OP_WAIT, timed_arg(g), 1);
		else if (!never) add_op(r, hi, phase, OP_WAIT, -1, 1);
	}
	if (r->subm == S_SYNC || r->subm == S_SYNC_SUSPENDED) add_op(r, 0, 0, OP_SYNC, 0, 1);
	if (r->subm == S_DIRECT) add_op(r, 0, 0, OP_DIRECT, 0, 1);
	finish_scripts(r);
	// a suspended queue already holds the submitted block during phase 0 ("submitted, not started")
	if (suspended) dispatch_suspend(r->q);
	if (r->subm == S_ASYNC_SUSPENDED) do_async(r, r->q, 0);
	if (r->subm == S_GROUP_ASYNC_SUSPENDED) do_async(r, r->q, 2);
	// helper 0's synchronous submission starts in phase 0 only for the suspended variant (it parks in dispatch_sync);
	// otherwise it is released by go_submit below
	for (int i = 1; i < r->nhelpers; i++) pthread_create(&r->h[i].th, NULL, helper, &r->h[i]);
	set_phase(r, 0);
	if (r->subm == S_SYNC_SUSPENDED) { pthread_create(&r->h[0].th, NULL, helper, &r->h[0]); usleep(200); }
	int stuck = 0;
	if (!wait_zero(&r->pend[0], 3000)) stuck |= 1;
	// start
	switch (r->subm) {
	case S_ASYNC_GLOBAL: case S_ASYNC_SERIAL: do_async(r, r->q, 0); break;
	case S_BARRIER_ASYNC: do_async(r, r->q, 1); break;
	case S_GROUP_ASYNC: do_async(r, r->q, 2); break;
	case S_ASYNC_SUSPENDED: case S_GROUP_ASYNC_SUSPENDED: case S_SYNC_SUSPENDED:
		dv_user(DVU_MARK, 2 * r->k, 1, 0); dispatch_resume(r->q); break;
	case S_SYNC: case S_DIRECT: pthread_create(&r->h[0].th, NULL, helper, &r->h[0]); break;
	default: break;
	}
	int expect_done = !never;
	if (!never) {
		// the body has started (and is held) or the invocation was skipped and completed
		for (int i = 0; i < 60000; i++) { if (atomic_load(&r->in_body) > 0 || performed(r) >= 1) break; usleep(50); }
		set_phase(r, 1);
		if (r->hold) { if (!wait_zero(&r->pend[1], 3000)) stuck |= 2; usleep((useconds_t)(xr(g) % 300)); }
		sem_post(&r->gate);
		if (!wait_performed(r, 1, 3000)) stuck |= 4;
		usleep(50);
	} else { sem_post(&r->gate); set_phase(r, 1); if (!wait_zero(&r->pend[1], 3000)) stuck |= 2; }
	set_phase(r, 2);
	if (!wait_zero(&r->pend[2], 3000)) stuck |= 8;
	for (int i = 0; i < r->nhelpers; i++) if (i > 0 || r->subm == S_SYNC || r->subm == S_SYNC_SUSPENDED || r->subm == S_DIRECT) pthread_join(r->h[i].th, NULL);
	// completion for observers: waiters and notifiers complete even when the body was skipped
	if (expect_done) {
		if (!atomic_load(&r->waited_ok) && (xr(g) & 1)) do_wait(r, -1);
		int nn = atomic_load(&r->nnotif); if (nn > MAXNOT) nn = MAXNOT;
		for (int i = 0; i < nn; i++) if (!wait_until(&r->notif_runs[i], 1, 3000)) stuck |= 16;
	}
	if (atomic_load(&r->cancels)) do_testcancel(r);
	usleep(300);                        // late duplicates of notification blocks / trailing events of the worker
	if (!never) { for (int i = 0; i < 2000 && *(void *volatile *)&r->dbpd->dbpd_queue; i++) usleep(50); usleep(100); }
	print_round(r, expect_done, stuck);
}

// kind 1: many invocations racing cancel / testcancel
static void *multi_thr(void *a) {
	helper_t *h = (helper_t *)a; round_t *r = h->r;
	for (int i = 0; i < h->nops; i++) {
		usleep((useconds_t)(xr(&h->rng) % 150));
		run_op(r, &h->ops[i]);
	}
	return NULL;
}
static void round_multi(round_t *r) {
	uint64_t *g = &r->rng;
	r->subm = -1; r->hold = 0; r->q = dispatch_get_global_queue(0, 0); r->nq = r->q; r->ug = dispatch_group_create();
	make_block(r);
	r->nhelpers = 2 + (int)(xr(g) % (MAXH - 1));
	int with_cancel = (xr(g) % 3) != 0;
	for (int i = 0; i < r->nhelpers; i++) {
		helper_t *h = &r->h[i]; h->r = r; h->idx = i; h->rng = xr(g) | 1; h->nops = 1 + (int)(xr(g) % 4);
		for (int j = 0; j < h->nops; j++) {
			unsigned c = (unsigned)(xr(g) % 10);
			int op = c < 5 ? OP_DIRECT : c < 6 ? OP_ASYNC : c < 8 ? OP_TESTCANCEL : with_cancel ? OP_CANCEL : OP_DIRECT;
			h->ops[j] = (sop_t){ -1, op, 0, 0 };
		}
	}
	for (int i = 0; i < r->nhelpers; i++) pthread_create(&r->h[i].th, NULL, multi_thr, &r->h[i]);
	for (int i = 0; i < r->nhelpers; i++) pthread_join(r->h[i].th, NULL);
	int stuck = wait_performed(r, atomic_load(&r->invocations), 3000) ? 0 : 4;
	if (atomic_load(&r->cancels)) do_testcancel(r);
	for (int i = 0; i < 2000 && *(void *volatile *)&r->dbpd->dbpd_queue; i++) usleep(50);
	usleep(200);
	print_round(r, atomic_load(&r->invocations) > 0, stuck);
}

// kind 2: DBF_PERFORM records
static void round_perform(round_t *r) {
	uint64_t *g = &r->rng;
	r->subm = -2; r->hold = 0;
	r->flags = FLAGSETS[xr(g) % (sizeof FLAGSETS / sizeof FLAGSETS[0])];
	int preset_cancel = (xr(g) % 3) == 0, n = 1 + (int)(xr(g) % 3);
	dispatch_block_t blk = Block_copy(^{ body(r); });
	// exactly what dispatch_block_perform builds (queue.c), on the heap so that the address is never reused
	struct dispatch_block_private_data_s *pd = malloc(sizeof *pd);
	struct dispatch_block_private_data_s init = DISPATCH_BLOCK_PRIVATE_DATA_PERFORM_INITIALIZER(r->flags, blk, DISPATCH_NO_VOUCHER);
	memcpy(pd, &init, sizeof init);
	if (preset_cancel) pd->dbpd_atomic_flags |= DBF_CANCELED;
	r->dbpd = pd; r->db = blk;
	ht_track(pd, sizeof *pd, 2 * r->k);
	for (int i = 0; i < n; i++) {
		atomic_fetch_add(&r->invocations, 1);
		dv_user(DVU_CALL, 2 * r->k, OP_DIRECT, 1); _dispatch_block_invoke_direct(pd); dv_user(DVU_RET, 2 * r->k, 0, 0);
	}
	int before = atomic_load(&r->body_runs);
	// public entry point (its record is on the library's stack: stamps only)
	dv_user(DVU_CALL, 2 * r->k, OP_PERFORM_PUBLIC, 0);
	dispatch_block_perform((dispatch_block_flags_t)r->flags, blk);
	dv_user(DVU_RET, 2 * r->k, (unsigned long long)(atomic_load(&r->body_runs) - before), 0);
	printf("R %d kind=2 subm=-2 flags=%lu hold=0 inv=%d body=%d performed=%d cancels=%d wz=0 wnz=0 wearly=0 tczero=0 "
			"expect_done=0 stuck=0 finalflags=%u finalqueue=%d nnotif=0 runs= released=0\n", r->k, r->flags, n, before, pd->dbpd_performed, preset_cancel,
			pd->dbpd_atomic_flags, pd->dbpd_queue != NULL);
	printf("P %d public_perform_body_runs=%d group=%p\n", r->k, atomic_load(&r->body_runs) - before, (void *)pd->dbpd_group);
}

// kind 3: a cancel lands inside a timed wait that times out (block cannot complete yet), then everything else
static void *lc_waiter(void *a) { helper_t *h = (helper_t *)a; do_wait(h->r, h->ops[0].arg); return NULL; }
static void *lc_canceller(void *a) { helper_t *h = (helper_t *)a; usleep((useconds_t)h->ops[0].arg); do_cancel(h->r); return NULL; }
static void round_lostcancel(round_t *r) {
	uint64_t *g = &r->rng;
	r->subm = (xr(g) & 1) ? S_ASYNC_SUSPENDED : S_NEVER; r->hold = 0;
	r->q = dispatch_queue_create("c19.serial", NULL); r->nq = dispatch_get_global_queue(0, 0); r->ug = dispatch_group_create();
	make_block(r);
	int submitted_first = r->subm == S_ASYNC_SUSPENDED;
	if (submitted_first) { dispatch_suspend(r->q); do_async(r, r->q, 0); }
	int tmo = timed_arg(g); if (tmo < 1000) tmo = 1000;
	r->nhelpers = 2;
	r->h[0].r = r; r->h[0].ops[0].arg = tmo; r->h[1].r = r; r->h[1].ops[0].arg = (int)(xr(g) % (unsigned)(tmo * 3 / 4));
	if (xr(g) & 1) do_notify(r);
	set_phase(r, 0);
	pthread_create(&r->h[0].th, NULL, lc_waiter, &r->h[0]); pthread_create(&r->h[1].th, NULL, lc_canceller, &r->h[1]);
	pthread_join(r->h[0].th, NULL); pthread_join(r->h[1].th, NULL);
	do_testcancel(r);                    // the cancel has returned: must report it from now on
	if (xr(g) & 1) do_wait(r, timed_arg(g));
	do_testcancel(r);
	// now let the block start: cancelled before start -> body skipped, observers complete
	if (submitted_first) { dv_user(DVU_MARK, 2 * r->k, 1, 0); dispatch_resume(r->q); } else do_async(r, r->q, 0);
	set_phase(r, 2);
	int stuck = wait_performed(r, 1, 3000) ? 0 : 4;
	do_notify(r);
	if (!stuck) do_wait(r, -1);
	int nn = atomic_load(&r->nnotif);
	if (!stuck) for (int i = 0; i < nn; i++) if (!wait_until(&r->notif_runs[i], 1, 3000)) stuck |= 16;
	do_testcancel(r);
	for (int i = 0; i < 2000 && *(void *volatile *)&r->dbpd->dbpd_queue; i++) usleep(50);
	usleep(200);
	r->subm = S_NEVER + 100 + submitted_first;
	print_round(r, 1, stuck);
}

// kind 5: the last reference is released
static void round_dispose(round_t *r) {
	uint64_t *g = &r->rng;
	int run_first = (xr(g) % 3) == 0;        // executed once before the release (the destructor then leaves nothing)
	r->subm = run_first ? -6 : -5; r->hold = 0;
	r->q = dispatch_queue_create("c19.dispose", NULL); r->nq = (xr(g) & 1) ? dispatch_get_global_queue(0, 0) : dispatch_queue_create("c19.notify", NULL);
	r->ug = dispatch_group_create();
	make_block(r);
	dispatch_group_t pg = r->dbpd->dbpd_group;
	r->nhelpers = 1 + (int)(xr(g) % 3);
	for (int i = 0; i < r->nhelpers; i++) { r->h[i].r = r; r->h[i].idx = i; r->h[i].rng = xr(g) | 1; }
	int nops = 1 + (int)(xr(g) % 6);
	for (int i = 0; i < nops; i++) {
		int hi = (int)(xr(g) % (unsigned)r->nhelpers); unsigned c = (unsigned)(xr(g) % 10);
		if (c < 2) add_op(r, hi, -1, OP_CANCEL, 0, 0);
		else if (c < 4) add_op(r, hi, -1, OP_TESTCANCEL, 0, 0);
		else if (c < 8) add_op(r, hi, -1, OP_NOTIFY, 0, 0);
		else if (c < 9) add_op(r, hi, -1, OP_WAIT, 0, 0);
		else add_op(r, hi, -1, OP_WAIT, timed_arg(g) % 3000 + 100, 1);
	}
	set_phase(r, 0);
	for (int i = 0; i < r->nhelpers; i++) pthread_create(&r->h[i].th, NULL, multi_thr, &r->h[i]);
	if (run_first) {
		if (xr(g) & 1) do_direct(r);
		else { do_async(r, r->q, (int)(xr(g) % 3)); }
	}
	for (int i = 0; i < r->nhelpers; i++) pthread_join(r->h[i].th, NULL);
	int stuck = 0;
	if (run_first) {
		if (!wait_performed(r, 1, 3000)) stuck |= 4;
		// the queue's reference on the block object is dropped after the invocation: wait for the worker to be done with it
		for (int i = 0; i < 2000 && *(void *volatile *)&r->dbpd->dbpd_queue; i++) usleep(50);
		dispatch_barrier_sync(r->q, ^{});
		usleep(100);
	}
	// nobody else uses the object any more: drop the last reference
	r->sv_flags = r->dbpd->dbpd_atomic_flags; r->sv_perf = r->dbpd->dbpd_performed; r->sv_queue = r->dbpd->dbpd_queue != NULL;
	dv_user(DVU_CALL, 2 * r->k, OP_RELEASE, 0);
	Block_release(r->db);
	dv_user(DVU_RET, 2 * r->k, 0, 0);
	ht_untrack(r->dbpd, sizeof(struct dispatch_block_private_data_s)); ht_untrack(&pg->dg_state, 8);
	r->released = 1;
	int nn = atomic_load(&r->nnotif); if (nn > MAXNOT) nn = MAXNOT;
	for (int i = 0; i < nn; i++) if (!wait_until(&r->notif_runs[i], 1, 3000)) stuck |= 16;
	usleep(200);
	print_round(r, 1, stuck);
}

// kind 4: occupied / emptied dbpd_queue slot (three invocations, no wait / notify)
static void *slot_sync(void *a) { helper_t *h = (helper_t *)a; do_sync(h->r); return NULL; }
static void round_slot(round_t *r) {
	r->subm = -4; r->hold = 1;
	dispatch_queue_t q1 = dispatch_queue_create("c19.slot1", NULL); r->q = dispatch_queue_create("c19.slot2", NULL);
	r->nq = dispatch_get_global_queue(0, 0); r->ug = dispatch_group_create();
	make_block(r);
	dispatch_suspend(q1);
	do_async(r, q1, 0);                    // slot = q1
	do_async(r, q1, (int)(xr(&r->rng) % 3));  // cmpxchg fails: references given back
	r->h[0].r = r; r->nhelpers = 1;
	pthread_create(&r->h[0].th, NULL, slot_sync, &r->h[0]);     // dispatch_sync on another queue: cmpxchg fails; body held
	int stuck = wait_until(&r->in_body, 1, 3000) ? 0 : 2;
	dv_user(DVU_MARK, 2 * r->k, 1, 0); dispatch_resume(q1);      // both async invocations run; the first empties the slot
	if (!wait_performed(r, 2, 3000)) stuck |= 4;
	sem_post(&r->gate);                                            // the sync invocation finishes: xchg finds NULL
	pthread_join(r->h[0].th, NULL);
	if (!wait_performed(r, 3, 3000)) stuck |= 4;
	usleep(200);
	print_round(r, 1, stuck);
}

// watchdog (progress-based): a round that makes no progress for 60 s (x C19_SLOW) is a hang (a waiter, a dispatch_sync or an invocation never
// completed): report it, dump what was recorded and exit with status 3
static _Atomic long wd_round = -1; static _Atomic int wd_kind;
static void *watchdog(void *a) {
	(void)a; long last = -2; int idle = 0;
	for (;;) {
		usleep(500000);
		long cur = atomic_load(&wd_round);
		if (cur == last) idle++; else { idle = 0; last = cur; }
		if (cur == -3) return NULL;
		if (idle >= 120 * g_slow) {
			printf("HANG round=%ld kind=%d subm=%d\n", cur, atomic_load(&wd_kind), atomic_load(&wd_subm));
			dv_dump(stdout); fflush(stdout); _exit(3);
		}
	}
}
static void on_sig(int s) { (void)s; }
// DISPATCH_CLIENT_CRASH (ud2), SIGSEGV, abort: report, dump what was recorded so far, exit with status 4
static void on_crash(int sig) {
	static _Atomic int once; if (atomic_fetch_add(&once, 1)) { for (;;) pause(); }
	printf("CRASH signal=%d round=%ld kind=%d subm=%d\n", sig, atomic_load(&wd_round), atomic_load(&wd_kind), atomic_load(&wd_subm));
	atomic_store(&dv_enabled, 0);
	dv_dump(stdout); fflush(stdout); _exit(4);
}
// crash scenarios (usage: c19_block crash <n>): misuse that the library answers with DISPATCH_CLIENT_CRASH; one
// scenario per process, the crash handler dumps the recorded traces (exit status 4).  Exit status 0 = no crash.
static void *crash_waiter(void *a) { round_t *r = (round_t *)a; dv_user(DVU_CALL, 0, OP_WAIT, DISPATCH_TIME_FOREVER);
	dispatch_block_wait(r->db, DISPATCH_TIME_FOREVER); dv_user(DVU_RET, 0, 0, 1); return NULL; }
static int crash_scenario(int n) {
	round_t *r = calloc(1, sizeof *r); r->k = 0; r->rng = 12345; sem_init(&r->gate, 0, 0); pthread_mutex_init(&r->wmu, NULL);
	r->q = dispatch_queue_create("c19.crash", NULL); r->nq = dispatch_get_global_queue(0, 0); r->ug = dispatch_group_create();
	make_block(r);
	printf("L flags=16 performed=20 queue=56 thread=64 size=72\nS scenario=%d\n", n);
	pthread_t th;
	switch (n) {
	case 1:  // a second waiter while the first one waits
		pthread_create(&th, NULL, crash_waiter, r); usleep(20000);
		dv_user(DVU_CALL, 0, OP_WAIT, 0); dispatch_block_wait(r->db, DISPATCH_TIME_NOW); dv_user(DVU_RET, 0, 1, 1); break;
	case 2:  // run again (direct call) after a successful wait
		do_direct(r); do_wait(r, -1); do_direct(r); break;
	case 3:  // run again (from a queue) after a successful wait
		do_direct(r); do_wait(r, -1); do_async(r, r->q, 0); usleep(200000); break;
	case 4:  // waited for after having run twice
		do_direct(r); do_direct(r); do_wait(r, 0); break;
	case 5:  // observed after having run twice
		do_direct(r); do_direct(r); do_notify(r); break;
	case 6:  // waited for while both run directly (dbpd_thread) and submitted to a queue (dbpd_queue)
		r->hold = 0; do_direct(r); dispatch_suspend(r->q); do_async(r, r->q, 0); do_wait(r, 0); break;
	}
	fflush(stdout);
	return 0;
}
int main(int argc, char **argv) {
	if (argc > 2 && !strcmp(argv[1], "crash")) {
		struct sigaction sc; memset(&sc, 0, sizeof sc); sc.sa_handler = on_crash; sigaction(SIGILL, &sc, NULL); sigaction(SIGSEGV, &sc, NULL);
		sigaction(SIGABRT, &sc, NULL); sigaction(SIGTRAP, &sc, NULL);
		setvbuf(stdout, NULL, _IOFBF, 1 << 20); ht = calloc(HT_SZ, sizeof *ht);
		dv_install(1, 0); _dispatch_verif_cb = c19_cb;
		return crash_scenario(atoi(argv[2]));
	}
	if (getenv("C19_SLOW")) g_slow = atoi(getenv("C19_SLOW")) > 0 ? atoi(getenv("C19_SLOW")) : 1;
	uint64_t seed = argc > 1 ? strtoull(argv[1], 0, 10) : 1; int nrounds = argc > 2 ? atoi(argv[2]) : 40;
	int permille = argc > 3 ? atoi(argv[3]) : 150;
	struct sigaction sa; memset(&sa, 0, sizeof sa); sa.sa_handler = on_sig; sigaction(SIGUSR1, &sa, NULL);
	sa.sa_handler = on_crash; sigaction(SIGILL, &sa, NULL); sigaction(SIGSEGV, &sa, NULL); sigaction(SIGABRT, &sa, NULL);
	sigaction(SIGBUS, &sa, NULL); sigaction(SIGTRAP, &sa, NULL);
	setvbuf(stdout, NULL, _IOFBF, 1 << 20);
	ht = calloc(HT_SZ, sizeof *ht);
	dv_install(seed, permille); _dispatch_verif_cb = c19_cb;
	printf("L flags=%zu performed=%zu queue=%zu thread=%zu size=%zu\n", offsetof(struct dispatch_block_private_data_s, dbpd_atomic_flags),
			offsetof(struct dispatch_block_private_data_s, dbpd_performed), offsetof(struct dispatch_block_private_data_s, dbpd_queue),
			offsetof(struct dispatch_block_private_data_s, dbpd_thread), sizeof(struct dispatch_block_private_data_s));
	uint64_t g = seed * 6364136223846793005ull + 1442695040888963407ull;
	pthread_t wd; pthread_create(&wd, NULL, watchdog, NULL);
	for (int k = 0; k < nrounds; k++) {
		round_t *r = calloc(1, sizeof *r);
		r->k = k; r->rng = xr(&g) | 1; sem_init(&r->gate, 0, 0); pthread_mutex_init(&r->wmu, NULL);
		unsigned c = (unsigned)(xr(&g) % 20);
		r->kind = c < 9 ? 0 : c < 12 ? 1 : c < 14 ? 2 : c < 17 ? 3 : c < 18 ? 4 : 5;
		atomic_store(&wd_kind, r->kind); atomic_store(&wd_round, k);
		if (r->kind == 0) round_single(r); else if (r->kind == 1) round_multi(r); else if (r->kind == 2) round_perform(r);
		else if (r->kind == 3) round_lostcancel(r); else if (r->kind == 4) round_slot(r); else round_dispose(r);
		if (getenv("C19_TIMING")) { struct timespec ts; clock_gettime(CLOCK_MONOTONIC, &ts); fprintf(stderr, "T %d kind=%d subm=%d hold=%d %ld.%03ld\n", k, r->kind, r->subm, r->hold, (long)ts.tv_sec, ts.tv_nsec / 1000000); }
		// rounds are leaked on purpose: late worker-thread accesses stay valid and addresses are never reused
	}
	atomic_store(&wd_round, -3);
	usleep(2000);
	dv_dump(stdout);
	return 0;
}
