// C11 trace recorder: a whole libdispatch process (client threads, manager thread, worker threads) in which the timer
// machinery of src/event/event.c is the copy #included here (link with exclude_objs=("event.c.o",)), instrumented only by
// wrappers around its entry points and by macro redirections of the calls it makes, plus the DISPATCH_VERIF atomic hook
// (src/shims/atomic.h) for the two atomic accesses made by src/source.c (set_timer's xchg of dt_pending_config, the
// latch's xchg of ds_pending_data) and the manager's load of ds_pending_data.  A public-API scenario (timer sources on
// three clocks, dispatch_after, set_timer incl. clock changes, suspend / resume, cancel) runs in real time; the recorded
// sequence of calls is printed and replayed through Model/TimerRun.v by lib/props/c11.py:
//   - every entry into the machinery becomes the model operation of the same name, with the guards of the system theorems
//     (TimerSys_proofs.v guard / guardV) CHECKED at that point in the model state,
//   - every _dispatch_event_loop_drain_timers call is replayed as one manager pass with the clock readings it used, and its
//     fire events, kernel timer calls and resulting timer states are compared,
//   - heap-touching entries must all come from one thread (the sequential model's premise).
// usage: c11_trace <seed>     output: one line per event: kind timer thread a b c d e
#include "internal.h"
#include <inttypes.h>
#include <stdatomic.h>

enum { E_CREATE = 1, E_SETTIMER, E_REGISTER, E_CONFIGURE, E_RESUME, E_UNREGISTER, E_DRAIN_BEGIN, E_NOW, E_FIRE, E_KARM,
	E_KDEL, E_SUSP, E_DRAIN_END, E_LATCH, E_HANDLER, E_PLOAD, E_HEAPFLAGS, E_SNAP, E_AFTERRUN, E_CXCHG };
struct ev { int kind, t, th; uint64_t a, b, c, d, e; };
#define MAXLOG (1u << 21)
static struct ev *LOG;
static _Atomic unsigned nlog;
static _Atomic int nthreads;
static __thread int my_th;
static __thread int in_drain;
static int th(void) { if (!my_th) my_th = ++nthreads; return my_th; }
static _Atomic int stop_rec;      // set before the dump: nothing is appended any more
static _Atomic int drains_active; // manager passes between their BEGIN and END records
static void lg(int kind, int t, uint64_t a, uint64_t b, uint64_t c, uint64_t d, uint64_t e)
{
	if (stop_rec) return;
	unsigned i = atomic_fetch_add(&nlog, 1);
	if (i < MAXLOG) LOG[i] = (struct ev){ kind, t, th(), a, b, c, d, e };
}

#define MAXT 512
static dispatch_timer_source_refs_t volatile KNOWN[MAXT];
static _Atomic int nknown;
static int tid_lookup(const void *dt)
{
	int n = nknown;
	for (int i = 0; i < n; i++) if ((const void *)KNOWN[i] == dt) return i + 1;
	return 0;
}
static pthread_mutex_t known_mx = PTHREAD_MUTEX_INITIALIZER;
static int tid_of(dispatch_timer_source_refs_t dt)
{
	int t = tid_lookup(dt);
	if (t) return t;
	pthread_mutex_lock(&known_mx);
	t = tid_lookup(dt);
	if (!t && nknown < MAXT) { KNOWN[nknown] = dt; t = ++nknown; }
	pthread_mutex_unlock(&known_mx);
	return t;
}

// ---- redirections for the calls made by event.c
static inline uint64_t c11_now_cached(dispatch_clock_t clock, dispatch_clock_now_cache_t cache)
{
	uint64_t v = _dispatch_time_now_cached(clock, cache);
	if (in_drain) lg(E_NOW, 0, (uint64_t)clock, v, 0, 0, 0);
	return v;
}
static inline bool c11_susp_obs(dispatch_source_t ds)
{
	bool v = _dq_state_is_suspended(os_atomic_load2o(ds, dq_state, relaxed));
	lg(E_SUSP, tid_of(ds->ds_timer_refs), v, 0, 0, 0, 0);
	return v;
}
void c11_karm(dispatch_timer_heap_t dth, uint32_t tidx, dispatch_timer_delay_s range, dispatch_clock_now_cache_t nows);
void c11_kdel(dispatch_timer_heap_t dth, uint32_t tidx);
#define _dispatch_time_now_cached c11_now_cached
#undef DISPATCH_QUEUE_IS_SUSPENDED
#define DISPATCH_QUEUE_IS_SUSPENDED(x) c11_susp_obs(x)
#undef dux_merge_evt
#define dux_merge_evt(du, ...) (lg(E_FIRE, tid_of(du), (uint64_t)(du)->ds_pending_data, 0, 0, 0, 0), \
		dux_type(du)->dst_merge_evt(du, __VA_ARGS__))
#define _dispatch_event_loop_timer_arm c11_karm
#define _dispatch_event_loop_timer_delete c11_kdel
#define _dispatch_unote_resume c11_inner_unote_resume
#define _dispatch_unote_register c11_inner_unote_register
#define _dispatch_unote_unregister c11_inner_unote_unregister
#define _dispatch_timer_unote_configure c11_inner_configure
#define _dispatch_event_loop_drain_timers c11_inner_drain
void c11_inner_unote_resume(dispatch_unote_t du);
bool c11_inner_unote_register(dispatch_unote_t du, dispatch_wlh_t wlh, dispatch_priority_t pri);
bool c11_inner_unote_unregister(dispatch_unote_t du, uint32_t flags);
void c11_inner_configure(dispatch_timer_source_refs_t dt);
void c11_inner_drain(dispatch_timer_heap_t dth, uint32_t count);
#include "event/event.c"
#undef _dispatch_time_now_cached
#undef _dispatch_event_loop_timer_arm
#undef _dispatch_event_loop_timer_delete
#undef _dispatch_unote_resume
#undef _dispatch_unote_register
#undef _dispatch_unote_unregister
#undef _dispatch_timer_unote_configure
#undef _dispatch_event_loop_drain_timers
#undef DISPATCH_QUEUE_IS_SUSPENDED
#define DISPATCH_QUEUE_IS_SUSPENDED(x) _dq_state_is_suspended(os_atomic_load2o(x, dq_state, relaxed))

void c11_karm(dispatch_timer_heap_t dth, uint32_t tidx, dispatch_timer_delay_s range, dispatch_clock_now_cache_t nows)
{
	uint64_t target = range.delay + _dispatch_time_now_cached(DISPATCH_TIMER_CLOCK(tidx), nows);
	lg(E_KARM, 0, tidx, target, range.leeway, 0, 0);
	_dispatch_event_loop_timer_arm(dth, tidx, range, nows);
}
void c11_kdel(dispatch_timer_heap_t dth, uint32_t tidx)
{
	lg(E_KDEL, 0, tidx, 0, 0, 0, 0);
	_dispatch_event_loop_timer_delete(dth, tidx);
}

// ---- the entry points of event.c, as seen by the rest of the library
static void snap(int kind, dispatch_timer_source_refs_t dt)
{
	lg(kind, tid_of(dt), dt->du_timer_flags, dt->dt_timer.target, dt->dt_timer.deadline, dt->dt_timer.interval,
			((uint64_t)(_dispatch_unote_armed(dt) ? 1 : 0) << 62) | ((uint64_t)(dt->dt_pending_config != NULL) << 61) |
			((uint64_t)dt->ds_pending_data & ((1ull << 61) - 1)));
}
void _dispatch_unote_resume(dispatch_unote_t du)
{
	if (du._du->du_is_timer) snap(E_RESUME, du._dt);
	c11_inner_unote_resume(du);
}
bool _dispatch_unote_register(dispatch_unote_t du, dispatch_wlh_t wlh, dispatch_priority_t pri)
{
	if (du._du->du_is_timer) snap(E_REGISTER, du._dt);
	return c11_inner_unote_register(du, wlh, pri);
}
bool _dispatch_unote_unregister(dispatch_unote_t du, uint32_t flags)
{
	if (du._du->du_is_timer && _dispatch_unote_registered(du)) snap(E_UNREGISTER, du._dt);
	return c11_inner_unote_unregister(du, flags);
}
void _dispatch_timer_unote_configure(dispatch_timer_source_refs_t dt)
{
	lg(E_CONFIGURE, tid_of(dt), (uint64_t)(uintptr_t)dt->dt_pending_config, _dispatch_unote_armed(dt) ? 1 : 0, 0, 0, 0);
	c11_inner_configure(dt);
}
void _dispatch_event_loop_drain_timers(dispatch_timer_heap_t dth, uint32_t count)
{
	drains_active++;
	lg(E_DRAIN_BEGIN, 0, 0, 0, 0, 0, 0);
	for (uint32_t i = 0; i < count; i++) lg(E_HEAPFLAGS, 0, i, dth[i].dth_needs_program, dth[i].dth_armed, dth[i].dth_count, 0);
	in_drain = 1;
	c11_inner_drain(dth, count);
	in_drain = 0;
	int n = nknown;
	for (int i = 0; i < n; i++) snap(E_SNAP, KNOWN[i]);
	lg(E_DRAIN_END, 0, dth[0].dth_dirty_bits != 0, 0, 0, 0, 0);
	drains_active--;
}

// ---- the atomic hook: accesses of src/source.c (and the manager's load) to the two shared words of a tracked timer
static __thread uint64_t st_start, st_interval, st_leeway;
static void hook(const volatile void *addr, unsigned size, int kind, int order, unsigned long long a, unsigned long long b,
		int ok, const char *file, int line)
{
	if (kind != DV_XCHG && kind != DV_LOAD) return;
	int n = nknown;
	for (int i = 0; i < n; i++) {
		dispatch_timer_source_refs_t dt = KNOWN[i];
		if (addr == (const volatile void *)&dt->ds_pending_data) {
			bool src = strstr(file, "source.c") != NULL;
			if (kind == DV_XCHG && src) lg(E_LATCH, i + 1, a, 0, 0, 0, 0);
			else if (kind == DV_LOAD && in_drain) lg(E_PLOAD, i + 1, a, 0, 0, 0, 0);
			return;
		}
		if (addr == (const volatile void *)&dt->dt_pending_config) {
			if (kind == DV_XCHG && strstr(file, "source.c")) lg(E_SETTIMER, i + 1, b, a, st_start, st_interval, st_leeway);
			else if (kind == DV_XCHG) lg(E_CXCHG, i + 1, a, 0, 0, 0, 0); // _dispatch_timer_unote_configure took this configuration
			return;
		}
	}
}

// ---------------------------------------------------------------------------------------------------------
// scenario (public API)
static uint64_t rs;
static uint64_t rnd(void)
{
	rs += 0x9E3779B97F4A7C15ull; uint64_t z = rs;
	z = (z ^ (z >> 30)) * 0xBF58476D1CE4E5B9ull; z = (z ^ (z >> 27)) * 0x94D049BB133111EBull; return z ^ (z >> 31);
}
static uint64_t below(uint64_t n) { return n ? rnd() % n : 0; }
#define MS NSEC_PER_MSEC
static dispatch_time_t mk(int c, int64_t d)
{
	return c == 0 ? dispatch_time(DISPATCH_TIME_NOW, d) : c == 1 ? dispatch_time(1ull << 63, d) : dispatch_walltime(NULL, d);
}
struct sc { dispatch_source_t ds; int t; int suspended, cancelled; };
static void set_timer(struct sc *x, dispatch_time_t when, uint64_t itv, uint64_t lee)
{
	st_start = when; st_interval = itv; st_leeway = lee;
	dispatch_source_set_timer(x->ds, when, itv, lee);
}
static void after_fn(void *ctx) { lg(E_AFTERRUN, (int)(intptr_t)ctx, 0, 0, 0, 0, 0); }

int main(int argc, char **argv)
{
	rs = argc > 1 ? strtoull(argv[1], NULL, 10) : 1;
	LOG = calloc(MAXLOG, sizeof *LOG);
	_dispatch_verif_cb = hook;
	static const uint64_t ITV[] = { DISPATCH_TIME_FOREVER, 1 * MS, 2 * MS, 5 * MS, 13 * MS, 40 * MS, 777777 };
	dispatch_queue_t qs[3];
	for (int i = 0; i < 3; i++) qs[i] = dispatch_queue_create("c11.tq", DISPATCH_QUEUE_SERIAL);
	int NS = 14;
	struct sc *S = calloc((size_t)NS, sizeof *S);
	for (int i = 0; i < NS; i++) {
		struct sc *x = &S[i];
		x->ds = dispatch_source_create(DISPATCH_SOURCE_TYPE_TIMER, 0, 0, qs[below(3)]);
		x->t = tid_of(x->ds->ds_timer_refs);
		lg(E_CREATE, x->t, x->ds->ds_timer_refs->du_timer_flags, 0, 0, 0, 0);
		dispatch_source_set_event_handler(x->ds, ^{
			// the count the handler is given, and the three clocks read after it (upper bounds of the reading that
			// _dispatch_source_timer_data made for this invocation)
			unsigned long hdata = dispatch_source_get_data(x->ds);
			lg(E_HANDLER, x->t, hdata, _dispatch_uptime(), _dispatch_monotonic_time(), _dispatch_get_nanoseconds(), 0);
			if (below(20) == 0) usleep(3000); // a lagging handler: the next fire finds unconsumed data
		});
		if (below(5)) set_timer(x, mk((int)below(3), (int64_t)below(120 * MS)), ITV[below(sizeof ITV / sizeof *ITV)], below(3) * MS);
		dispatch_activate(x->ds);
	}
	for (int i = 0; i < 10; i++) dispatch_after_f(mk((int)below(3), (int64_t)below(200 * MS)), qs[below(3)], (void *)(intptr_t)i, after_fn);
	for (int step = 0; step < 150; step++) {
		usleep((useconds_t)(500 + below(4000)));
		struct sc *x = &S[below((uint64_t)NS)];
		if (x->cancelled) continue;
		switch (below(10)) {
		case 0: case 1: case 2: case 3: // replace the settings, possibly on another clock, possibly in the past
			set_timer(x, mk((int)below(3), (int64_t)below(150 * MS) - (int64_t)(10 * MS)), ITV[below(sizeof ITV / sizeof *ITV)], below(3) * MS);
			break;
		case 4: case 5:
			if (!x->suspended) { dispatch_suspend(x->ds); x->suspended = 1; }
			break;
		case 6: case 7: case 8:
			if (x->suspended) { dispatch_resume(x->ds); x->suspended = 0; }
			break;
		default:
			if (!x->suspended && below(3) == 0) { dispatch_source_cancel(x->ds); x->cancelled = 1; }
			break;
		}
	}
	for (int i = 0; i < NS; i++) if (S[i].suspended) { dispatch_resume(S[i].ds); S[i].suspended = 0; }
	usleep(250 * 1000);
	// the dump must not cut a manager pass in two: wait until the manager is outside a pass (bounded: a pass is short; if
	// one is still running after 5 s the record ends with an incomplete pass, which the replay recognises and does not
	// compare), stop recording, and give writers that already reserved an entry time to fill it
	for (int k = 0; k < 5000 && drains_active; k++) usleep(1000);
	stop_rec = 1;
	_dispatch_verif_cb = NULL;
	usleep(50 * 1000);
	unsigned n = nlog < MAXLOG ? nlog : MAXLOG;
	for (unsigned i = 0; i < n; i++)
		printf("%d %d %d %" PRIu64 " %" PRIu64 " %" PRIu64 " %" PRIu64 " %" PRIu64 "\n", LOG[i].kind, LOG[i].t, LOG[i].th,
				LOG[i].a, LOG[i].b, LOG[i].c, LOG[i].d, LOG[i].e);
	printf("END %u %s\n", n, nlog >= MAXLOG ? "TRUNCATED" : "ok");
	fflush(stdout);
	_exit(0);
}
