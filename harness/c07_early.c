// C07 deterministic witness: a notification registered AFTER a new dispatch_group_enter is submitted while that
// enter is still outstanding, because a dispatch_group_leave of the previous generation is between its atomic add
// (count -> 0) and its snapshot of the notify list.
// The DISPATCH_VERIF callback is used to hold the leaving thread at that point (after the add on dg_state) and, as in
// harness/c07_group.c, to record the run: the output has the format of one round (round 0) of c07_group, so that
// lib/props/c07.py judges it with the same oracle and decides "known defect" the same way (the round must replay on the
// global model and the model run itself must submit that notification early), not by the EARLY token.
// usage: c07_early [variant]   variant 0: list already non-empty (notification A pending), B pushed behind it
//                              variant 1: only a waiter's HAS_WAITERS bit is pending; B is the first pusher
// prints "R 0 9 3", "EARLY <variant> <0|1>" (1 = block B ran while the enter made before registering it had not left),
// "Q 0 <dg_state> <registered>", then the recorder dump.
#include "internal.h"
#include "dv_record.h"

enum { OP_ENTER = 1, OP_LEAVE = 2, OP_WAIT = 3, OP_NOTIFY = 4 };
static __thread int in_leave;
static _Atomic int l_added, b_registered, a_ran, b_ran, left_e;
static _Atomic int b_ran_before_leave = -1;
static dispatch_group_t g;

static void cb(const volatile void *addr, unsigned size, int kind, int order, unsigned long long a, unsigned long long b,
		int ok, const char *file, int line) {
	dv_cb(addr, size, kind, order, a, b, ok, file, line);
	if (in_leave == 1 && kind == DV_ADD && size == 8 && b == 4 && addr == (const volatile void *)&g->dg_state) {
		in_leave = 2;
		atomic_store(&l_added, 1);
		while (!atomic_load(&b_registered)) sched_yield();      // hold the leaver here (no time limit: bounded by main)
	}
}
static void fa(void *c) {
	(void)c; dv_user(DVU_CALLOUT_BEGIN, 0, OP_NOTIFY, 0); atomic_store(&a_ran, 1); dv_user(DVU_CALLOUT_END, 0, OP_NOTIFY, 0);
}
static void fb(void *c) {
	(void)c; dv_user(DVU_CALLOUT_BEGIN, 0, OP_NOTIFY, 1);
	atomic_store(&b_ran_before_leave, atomic_load(&left_e) ? 0 : 1); atomic_store(&b_ran, 1);
	dv_user(DVU_CALLOUT_END, 0, OP_NOTIFY, 1);
}
static void do_enter(void) { dv_user(DVU_CALL, 0, OP_ENTER, 0); dispatch_group_enter(g); dv_user(DVU_RET, 0, 0, 0); }
static void do_leave(void) { dv_user(DVU_CALL, 0, OP_LEAVE, 0); dispatch_group_leave(g); dv_user(DVU_RET, 0, 0, 0); }
static void do_notify(dispatch_queue_t nq, long id, dispatch_function_t f) {
	dv_user(DVU_CALL, 0, OP_NOTIFY, (unsigned long long)id); dispatch_group_notify_f(g, nq, NULL, f); dv_user(DVU_RET, 0, 0, 0);
}
static void *leaver(void *x) { (void)x; in_leave = 1; do_leave(); in_leave = 0; return NULL; }
static void *waiter(void *x) {
	(void)x; dispatch_time_t tmo = dispatch_time(DISPATCH_TIME_NOW, 300 * NSEC_PER_MSEC);
	dv_user(DVU_CALL, 0, OP_WAIT, (unsigned long long)tmo);
	long rc = dispatch_group_wait(g, tmo);
	dv_user(DVU_RET, 0, rc != 0, (unsigned long long)(dispatch_time(DISPATCH_TIME_NOW, 0) + 1000 >= tmo));
	return NULL;
}

int main(int argc, char **argv) {
	int variant = argc > 1 ? atoi(argv[1]) : 0;
	g = dispatch_group_create();
	dispatch_queue_t nq = dispatch_queue_create("c07.notify", NULL);
	int base_refs = *(volatile int *)&g->do_ref_cnt;
	dv_install(1, 0); _dispatch_verif_cb = cb;
	dv_track(&g->dg_state, 24, 0);
	dv_track(&((dispatch_lane_t)nq)->dq_items_tail, sizeof(void *), 100000);
	printf("R 0 9 3\n");
	pthread_t tl, tw;
	do_enter();                                                // generation 1: one unit of work
	if (variant == 0) do_notify(nq, 0, fa);                    // A waits for generation 1 (sets HAS_NOTIFS)
	else {                                                     // a waiter sets HAS_WAITERS: wait until the bit is in the word
		pthread_create(&tw, NULL, waiter, NULL);
		while (!((*(volatile uint64_t *)&g->dg_state) & DISPATCH_GROUP_HAS_WAITERS)) sched_yield();
	}
	pthread_create(&tl, NULL, leaver, NULL);                  // last leave of generation 1 ...
	while (!atomic_load(&l_added)) sched_yield();             // ... held right after its atomic add (count is now 0)
	do_enter();                                                // generation 2 begins: E
	do_notify(nq, 1, fb);                                      // B must wait for E
	atomic_store(&b_registered, 1);
	pthread_join(tl, NULL);
	// E is still outstanding: B must not run.  The leaver has returned, so whatever it detached has been submitted to nq;
	// wait until nq is idle again (nothing queued, not enqueued, not being drained): no time window decides the verdict
	for (;;) {
		uint64_t qs = *(volatile uint64_t *)&((dispatch_lane_t)nq)->dq_state;
		if (*(void *volatile *)&((dispatch_lane_t)nq)->dq_items_tail == NULL && !_dq_state_drain_locked(qs) &&
				!_dq_state_is_enqueued(qs)) break;
		usleep(200);
	}
	int early = atomic_load(&b_ran);
	atomic_store(&left_e, 1);
	do_leave();                                                // E leaves only now
	while (!atomic_load(&b_ran)) usleep(500);                  // B runs at the latest now (a hang here is caught by the caller's limit)
	if (variant == 0) while (!atomic_load(&a_ran)) usleep(500);
	if (variant == 1) pthread_join(tw, NULL);
	while (*(volatile int *)&g->do_ref_cnt != base_refs) usleep(500);     // every wake has finished: the record is complete
	printf("EARLY %d %d\n", variant, early);
	printf("detail: A ran=%d, B ran=%d, B ran before the leave matching its preceding enter=%d\n", atomic_load(&a_ran),
			atomic_load(&b_ran), atomic_load(&b_ran_before_leave));
	printf("Q 0 %llu %d\n", (unsigned long long)(*(volatile uint64_t *)&g->dg_state), variant == 0 ? 2 : 1);
	dv_user(DVU_MARK, 0, 99, 0);
	dv_dump(stdout);
	return 0;
}
