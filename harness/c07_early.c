// C07 deterministic witness: a notification registered AFTER a new dispatch_group_enter is submitted while that
// enter is still outstanding, because a dispatch_group_leave of the previous generation is between its atomic add
// (count -> 0) and its snapshot of the notify list.
// The DISPATCH_VERIF callback is used only to hold the leaving thread at that point (after the add on dg_state).
// usage: c07_early [variant]   variant 0: list already non-empty (notification A pending), B pushed behind it
//                              variant 1: only a waiter's HAS_WAITERS bit is pending; B is the first pusher
// prints "EARLY <variant> <0|1>" (1 = block B ran while the enter made before registering it had not left) and details.
#include <dispatch/dispatch.h>
#include <pthread.h>
#include <stdio.h>
#include <stdlib.h>
#include <stdint.h>
#include <unistd.h>
#include <stdatomic.h>

typedef void (*dispatch_verif_cb_t)(const volatile void *addr, unsigned size, int kind, int order,
		unsigned long long a, unsigned long long b, int ok, const char *file, int line);
extern dispatch_verif_cb_t volatile _dispatch_verif_cb;
enum { DV_ADD = 6 };

static __thread int in_leave;
static _Atomic int l_added, b_registered, a_ran, b_ran, left_e;
static _Atomic int b_ran_before_leave = -1;

static void cb(const volatile void *addr, unsigned size, int kind, int order, unsigned long long a, unsigned long long b,
		int ok, const char *file, int line) {
	(void)addr; (void)order; (void)a; (void)ok; (void)file; (void)line;
	if (in_leave == 1 && kind == DV_ADD && size == 8 && b == 4) {
		in_leave = 2;
		atomic_store(&l_added, 1);
		for (int i = 0; i < 3000000 && !atomic_load(&b_registered); i++) sched_yield();   // hold the leaver here
	}
}
static void fa(void *c) { (void)c; atomic_store(&a_ran, 1); }
static void fb(void *c) { (void)c; atomic_store(&b_ran_before_leave, atomic_load(&left_e) ? 0 : 1); atomic_store(&b_ran, 1); }
static dispatch_group_t g;
static void *leaver(void *x) { (void)x; in_leave = 1; dispatch_group_leave(g); in_leave = 0; return NULL; }
static void *waiter(void *x) { (void)x; dispatch_group_wait(g, dispatch_time(DISPATCH_TIME_NOW, 300 * NSEC_PER_MSEC)); return NULL; }

int main(int argc, char **argv) {
	int variant = argc > 1 ? atoi(argv[1]) : 0;
	g = dispatch_group_create();
	dispatch_queue_t nq = dispatch_queue_create("c07.notify", NULL);
	pthread_t tl, tw;
	dispatch_group_enter(g);                                   // generation 1: one unit of work
	if (variant == 0) dispatch_group_notify_f(g, nq, NULL, fa);   // A waits for generation 1 (sets HAS_NOTIFS)
	else { pthread_create(&tw, NULL, waiter, NULL); usleep(50000); }  // a waiter sets HAS_WAITERS
	_dispatch_verif_cb = cb;
	pthread_create(&tl, NULL, leaver, NULL);                  // last leave of generation 1 ...
	while (!atomic_load(&l_added)) sched_yield();             // ... held right after its atomic add (count is now 0)
	dispatch_group_enter(g);                                   // generation 2 begins: E
	dispatch_group_notify_f(g, nq, NULL, fb);                  // B must wait for E
	atomic_store(&b_registered, 1);
	pthread_join(tl, NULL);
	for (int i = 0; i < 400 && !atomic_load(&b_ran); i++) usleep(1000);   // E is still outstanding during this time
	int early = atomic_load(&b_ran);
	atomic_store(&left_e, 1);
	dispatch_group_leave(g);                                   // E leaves only now
	for (int i = 0; i < 400 && !atomic_load(&b_ran); i++) usleep(1000);
	if (variant == 1) pthread_join(tw, NULL);
	_dispatch_verif_cb = NULL;
	printf("EARLY %d %d\n", variant, early);
	printf("detail: A ran=%d, B ran=%d, B ran before the leave matching its preceding enter=%d\n", atomic_load(&a_ran),
			atomic_load(&b_ran), atomic_load(&b_ran_before_leave));
	return 0;
}
