// White-box part of harness/c01_lanewords.c: layout of the queue header and plain reads of a queue's words.
// (separate translation unit: internal.h and the public-API scenario code of c01_lanes.c do not mix)
#include "internal.h"

size_t lw_off_state(void) { return offsetof(struct dispatch_queue_s, dq_state); }
size_t lw_size_state(void) { return sizeof(((struct dispatch_queue_s *)0)->dq_state); }
// plain (non-hooked) reads: they must not appear in the recording
unsigned long long lw_read_state(void *q) { return *(volatile uint64_t *)((char *)q + offsetof(struct dispatch_queue_s, dq_state)); }
int lw_read_width(void *q) { return (int)((struct dispatch_queue_s *)q)->dq_width; }
unsigned long lw_read_type(void *q) { return (unsigned long)dx_type((struct dispatch_queue_s *)q); }
unsigned long lw_read_atomic_flags(void *q) { return (unsigned long)((struct dispatch_queue_s *)q)->dq_atomic_flags; }
// constants the checker wants from the compiler, not from a second source
unsigned long long lw_const(int i) {
	switch (i) {
	case 0: return DLOCK_OWNER_MASK;
	case 1: return DISPATCH_QUEUE_WIDTH_INTERVAL;
	case 2: return DISPATCH_QUEUE_WIDTH_FULL;
	case 3: return DISPATCH_QUEUE_IN_BARRIER;
	case 4: return DISPATCH_QUEUE_PENDING_BARRIER;
	case 5: return DISPATCH_QUEUE_SUSPEND_INTERVAL;
	case 6: return DISPATCH_QUEUE_ENQUEUED;
	case 7: return DISPATCH_QUEUE_ENQUEUED_ON_MGR;
	case 8: return DISPATCH_QUEUE_ROLE_MASK;
	case 9: return DISPATCH_QUEUE_WIDTH_FULL_BIT;
	case 10: return DISPATCH_QUEUE_SUSPEND_HALF;
	case 11: return DISPATCH_QOS_MAX;
	case 12: return _DISPATCH_SOURCE_TYPE;
	case 13: return _DISPATCH_META_TYPE_MASK;
	case 14: return DISPATCH_QUEUE_DIRTY;
	case 15: return DISPATCH_QUEUE_ROLE_BASE_ANON;
	case 16: return DISPATCH_QUEUE_ROLE_BASE_WLH;
	case 17: return DISPATCH_QUEUE_ROLE_INNER;
	case 18: return DISPATCH_QUEUE_HAS_SIDE_SUSPEND_CNT;
	}
	return 0;
}
int lw_nconst(void) { return 19; }
