// C11 white-box driver for the kernel-timer side of src/event/event_epoll.c: #includes event_epoll.c (link with
// exclude_objs=("event_epoll.c.o",)).  The three system calls by which the file talks to the kernel timer
// (timerfd_create, timerfd_settime, epoll_ctl) are redirected to recorders for the calls made by this file; the state
// machine around them (_dispatch_timeout_program, _dispatch_event_loop_timer_arm/_delete, _dispatch_event_merge_timer) is
// the library's code and runs on the library's own _dispatch_epoll_timeout[] / _dispatch_timers_heap[].
//   a tidx target        _dispatch_timeout_program(tidx, target, 0)
//   A tidx delay now     _dispatch_event_loop_timer_arm(heaps, tidx, {delay, 0}, nows{now})
//   d tidx               _dispatch_event_loop_timer_delete(heaps, tidx)
//   x clock              _dispatch_event_merge_timer(clock)   (what the manager does when the timerfd of `clock` fires)
//   h tidx np armed      set dth_needs_program / dth_armed of heap tidx, clear the dirty bits
// answer: kernel calls of this command (c = timerfd_create, s:<abs ns> = timerfd_settime, e:<op> = epoll_ctl 1 ADD 2 DEL 3 MOD)
//         # per clock: created registered armed # per heap: needs_program armed # dirty
#include "internal.h"
#include <sys/epoll.h>
#include <sys/timerfd.h>
#include <inttypes.h>
static char kb[1024]; static size_t kl;
static int c11_timerfd_create(int clockid, int flags) { kl += (size_t)snprintf(kb + kl, sizeof kb - kl, " c"); return 1000 + clockid; }
static int c11_timerfd_settime(int fd, int flags, const struct itimerspec *n, struct itimerspec *o)
{
	kl += (size_t)snprintf(kb + kl, sizeof kb - kl, " s:%" PRIu64, (uint64_t)n->it_value.tv_sec * NSEC_PER_SEC + (uint64_t)n->it_value.tv_nsec);
	return (flags & TFD_TIMER_ABSTIME) ? 0 : -1;
}
static int c11_epoll_ctl(int epfd, int op, int fd, struct epoll_event *ev) { kl += (size_t)snprintf(kb + kl, sizeof kb - kl, " e:%d", op); return 0; }
#define timerfd_create c11_timerfd_create
#define timerfd_settime c11_timerfd_settime
#define epoll_ctl c11_epoll_ctl
#include "event/event_epoll.c"
#undef timerfd_create
#undef timerfd_settime
#undef epoll_ctl

static void dump(void)
{
	printf("K%s #", kb);
	for (int c = 0; c < DISPATCH_CLOCK_COUNT; c++)
		printf(" %d %d %d", _dispatch_epoll_timeout[c].det_fd >= 0, (int)_dispatch_epoll_timeout[c].det_registered, (int)_dispatch_epoll_timeout[c].det_armed);
	printf(" #");
	for (int i = 0; i < DISPATCH_TIMER_COUNT; i++)
		printf(" %u %u", (unsigned)_dispatch_timers_heap[i].dth_needs_program, (unsigned)_dispatch_timers_heap[i].dth_armed);
	printf(" # %d\n", _dispatch_timers_heap[0].dth_dirty_bits != 0);
	fflush(stdout);
}

int main(void)
{
	char line[256];
	while (fgets(line, sizeof line, stdin)) {
		unsigned long long a = 0, b = 0, c = 0;
		sscanf(line + 1, "%llu %llu %llu", &a, &b, &c);
		kl = 0; kb[0] = 0;
		switch (line[0]) {
		case 'a': _dispatch_timeout_program((uint32_t)a, b, 0); break;
		case 'A': {
			dispatch_clock_now_cache_s nows = { };
			nows.nows[DISPATCH_TIMER_CLOCK(a)] = c;
			dispatch_timer_delay_s r = { .delay = b, .leeway = 0 };
			_dispatch_event_loop_timer_arm(_dispatch_timers_heap, (uint32_t)a, r, &nows);
			break;
		}
		case 'd': _dispatch_event_loop_timer_delete(_dispatch_timers_heap, (uint32_t)a); break;
		case 'x': _dispatch_event_merge_timer((dispatch_clock_t)a); break;
		case 'h':
			_dispatch_timers_heap[a].dth_needs_program = b != 0; _dispatch_timers_heap[a].dth_armed = c != 0;
			_dispatch_timers_heap[0].dth_dirty_bits = 0;
			break;
		default: continue;
		}
		dump();
	}
	return 0;
}
