// Word-transition recorder for the lane properties C01-C05: runs the stress scenarios of harness/c01_lanes.c (same
// code, same oracles: it is #included) plus scenarios for suspend/resume/activate/apply/retargeting, records EVERY
// os_atomic_* operation of every thread through the DISPATCH_VERIF hook (with file and line), and dumps the operations on the
// dq_state word of every queue the scenarios created, for lib/lanewords.py (conformance with coq/Gen/Gen_dqstate.v).
//   usage: c01_lanewords <seed> <scenario|all> <perturb_permille> <scale> <dumpfile>
// dump:  C <i> <value>                 constants from the compiler (c01_lanewords_wb.c)
//        F <file#> <path>              source files named by the hook
//        Q <q#> <label> <width[,width..]> <type> <creator thread#> <initial dq_state> <final dq_state> <quiescent>
//        E <thread#> <gettid> <seq> <kind> <order> <q#> <off> <size> <a> <b> <ok> <file#> <line> <in creation call>
//                                      operations on a queue's dq_state (off 0/4 within the word), grouped by thread, program order
//        X <thread#> <file#> <line>    the thread's next operation at another source line (proves that a loop was left)
//        N <total operations recorded>
#include <dispatch/dispatch.h>
#include "dv_record.h"

// ------------------------------------------------------------------ recorder
typedef struct { uint64_t seq; uintptr_t addr; unsigned long long a, b; int line; short kind; signed char order, file; unsigned char size, ok; } lw_ev_t;
typedef struct lw_thr { struct lw_thr *next; int idx; long tid; lw_ev_t *ev; size_t n, cap; uint64_t rng; } lw_thr_t;
typedef struct { void *q; uintptr_t addr; const char *label; int creator; size_t begin_index; uint64_t seq_end; unsigned long long init, final; int width[16], nwidth, quiescent; unsigned long type; } lw_q_t;
enum { LW_CREATE_BEGIN = 200, LW_CREATE_END = 201 };

static lw_thr_t *lw_threads; static pthread_mutex_t lw_mu = PTHREAD_MUTEX_INITIALIZER; static int lw_nthreads;
static __thread lw_thr_t *lw_self; static _Atomic uint64_t lw_seq; static _Atomic int lw_on; static int lw_permille; static uint64_t lw_seed;
static const char *volatile lw_files[64]; static _Atomic int lw_nfiles;
static lw_q_t lw_qs[512]; static int lw_nq;

extern size_t lw_off_state(void); extern unsigned long long lw_read_state(void *q); extern int lw_read_width(void *q);
extern unsigned long lw_read_type(void *q); extern unsigned long long lw_const(int i); extern int lw_nconst(void);

static lw_thr_t *lw_me(void) {
	lw_thr_t *t = lw_self; if (t) return t;
	t = (lw_thr_t *)calloc(1, sizeof *t); t->tid = (long)syscall(SYS_gettid); t->cap = 1 << 14; t->ev = (lw_ev_t *)malloc(t->cap * sizeof(lw_ev_t));
	pthread_mutex_lock(&lw_mu); t->idx = lw_nthreads++; t->next = lw_threads; lw_threads = t; pthread_mutex_unlock(&lw_mu);
	t->rng = lw_seed * 0x9E3779B97F4A7C15ull + (uint64_t)(t->idx + 1) * 0xBF58476D1CE4E5B9ull; lw_self = t; return t;
}
static int lw_file_id(const char *f) {
	int n = atomic_load_explicit(&lw_nfiles, memory_order_acquire);
	for (int i = 0; i < n; i++) if (lw_files[i] == f) return i;
	pthread_mutex_lock(&lw_mu); n = atomic_load(&lw_nfiles); int id = -1;
	for (int i = 0; i < n; i++) if (lw_files[i] == f || !strcmp((const char *)lw_files[i], f)) id = i;
	if (id < 0 && n < 64) { lw_files[n] = f; id = n; atomic_store_explicit(&lw_nfiles, n + 1, memory_order_release); }
	pthread_mutex_unlock(&lw_mu); return id;
}
static lw_ev_t *lw_push(lw_thr_t *t) {
	if (t->n == t->cap) { t->cap *= 2; t->ev = (lw_ev_t *)realloc(t->ev, t->cap * sizeof(lw_ev_t)); if (!t->ev) abort(); }
	return &t->ev[t->n++];
}
static void lw_cb(const volatile void *addr, unsigned size, int kind, int order, unsigned long long a, unsigned long long b, int ok, const char *file, int line) {
	if (!atomic_load_explicit(&lw_on, memory_order_relaxed)) return;
	int saved_errno = errno; lw_thr_t *t = lw_me();
	if (kind <= 11 && size) { lw_ev_t *e = lw_push(t);
		e->seq = atomic_fetch_add(&lw_seq, 1); e->addr = (uintptr_t)addr; e->a = a; e->b = b; e->line = line; e->kind = (short)kind; e->order = (signed char)order;
		e->file = (signed char)lw_file_id(file); e->size = (unsigned char)size; e->ok = (unsigned char)ok; }
	if (lw_permille) { uint64_t x = t->rng; x ^= x << 13; x ^= x >> 7; x ^= x << 17; t->rng = x;
		if ((int)(x % 1000) < lw_permille) { if ((x >> 20) & 3) sched_yield(); else usleep((useconds_t)((x >> 24) % 60)); } }
	errno = saved_errno;
}
static void lw_install(uint64_t seed, int permille) { lw_seed = seed; lw_permille = permille; atomic_store(&lw_on, 1); _dispatch_verif_cb = lw_cb; }

// creation of a queue: the creating thread's operations on the new word between the two marks belong to the new queue
static void lw_create_begin(void) { lw_thr_t *t = lw_me(); lw_ev_t *e = lw_push(t); memset(e, 0, sizeof *e); e->kind = LW_CREATE_BEGIN; e->seq = atomic_fetch_add(&lw_seq, 1); }
static void *lw_created(void *q, const char *label) {
	lw_thr_t *t = lw_me(); size_t i = t->n; while (i > 0 && t->ev[i - 1].kind != LW_CREATE_BEGIN) i--;
	lw_ev_t *e = lw_push(t); memset(e, 0, sizeof *e); e->kind = LW_CREATE_END; e->seq = atomic_fetch_add(&lw_seq, 1);
	pthread_mutex_lock(&lw_mu);
	if (q && lw_nq < 512) { lw_q_t *r = &lw_qs[lw_nq++]; r->q = q; r->addr = (uintptr_t)q + lw_off_state(); r->label = label; r->creator = t->idx; r->begin_index = i;
		r->seq_end = e->seq; r->init = lw_read_state(q); r->width[0] = lw_read_width(q); r->nwidth = 1; r->type = lw_read_type(q);
		r->label = dispatch_queue_get_label((dispatch_queue_t)q); if (!r->label || !*r->label) r->label = "?"; }
	pthread_mutex_unlock(&lw_mu); return q;
}
#define LW_NEWQ(expr) (lw_create_begin(), (__typeof__(expr))lw_created((void *)(expr), #expr))
// dq_width can change (dispatch_queue_set_width): every width the queue was seen with is dumped
static void lw_note_width(void *q) { pthread_mutex_lock(&lw_mu);
	for (int i = 0; i < lw_nq; i++) if (lw_qs[i].q == q) { lw_q_t *r = &lw_qs[i]; int w = lw_read_width(q), seen = 0;
		for (int j = 0; j < r->nwidth; j++) seen |= r->width[j] == w;
		if (!seen && r->nwidth < 16) r->width[r->nwidth++] = w; }
	pthread_mutex_unlock(&lw_mu); }

// ------------------------------------------------------------------ the scenarios of c01_lanes.c, unchanged
// the watchdog of c01_lanes.c leaves with _exit(3) when a scenario is stuck: the recording up to the stall is what one
// wants then, so _exit is routed through a dump (the queues are reported as not quiescent: they are not)
static const char *lw_dump_path = "/dev/null";
static void lw_dump(const char *path);
static void lw_exit(int code) { static _Atomic int once;
	if (atomic_exchange(&once, 1)) for (;;) pause();     // a second watchdog thread got here too: the first one is dumping and will leave
	lw_dump(lw_dump_path); _exit(code); }
#define main lanes_main
#define dv_install(seed, permille) lw_install(seed, permille)
#define _exit(code) lw_exit(code)
#include "c01_lanes.c"
#undef main
#undef dv_install
#undef _exit

// ------------------------------------------------------------------ more scenarios (suspend / resume / activate / apply / retarget)
static _Atomic long x_ran; static void x_item(void *c) { (void)c; atomic_fetch_add(&x_ran, 1); atomic_fetch_add(&progress, 1); if ((atomic_load(&x_ran) & 15) == 0) sched_yield(); }
static void x_slow(void *c) { (void)c; usleep(200); atomic_fetch_add(&x_ran, 1); atomic_fetch_add(&progress, 1); }
static void x_apply(void *c, size_t i) { (void)c; (void)i; atomic_fetch_add(&x_ran, 1); atomic_fetch_add(&progress, 1); if ((i & 7) == 0) sched_yield(); }
typedef struct { dispatch_queue_t q; int n; uint64_t r; int mode; } x_work_t;
static void *x_suspender(void *a) { x_work_t *w = (x_work_t *)a; uint64_t r = w->r;
	for (int i = 0; i < w->n; i++) { r ^= r << 13; r ^= r >> 7; r ^= r << 17; int k = 1 + (int)((r >> 9) % 3);
		for (int j = 0; j < k; j++) dispatch_suspend(w->q);
		if ((r >> 20) & 1) usleep((useconds_t)((r >> 24) % 200));
		for (int j = 0; j < k; j++) dispatch_resume(w->q);
		atomic_fetch_add(&progress, 1); }
	return NULL; }
static void *x_producer(void *a) { x_work_t *w = (x_work_t *)a; uint64_t r = w->r;
	for (int i = 0; i < w->n; i++) { r ^= r << 13; r ^= r >> 7; r ^= r << 17;
		switch (w->mode ? (int)((r >> 11) % 4) : 0) {
		case 0: dispatch_async_f(w->q, NULL, x_item); break;
		case 1: dispatch_barrier_async_f(w->q, NULL, x_item); break;
		case 2: dispatch_sync_f(w->q, NULL, x_item); break;
		case 3: dispatch_barrier_sync_f(w->q, NULL, x_item); break; } }
	return NULL; }
static void x_expect(const char *prop, long want) {
	// progress-based, never elapsed-time based: give up only when the count has not moved for 10 s (a loaded machine is slow, not stuck)
	long last = atomic_load(&x_ran); int idle = 0;
	// (it keeps the scenario watchdog quiet meanwhile: this wait IS the progress check here, and its message says what is missing)
	while (atomic_load(&x_ran) < want && idle < 20000) { usleep(500); atomic_fetch_add(&progress, 1);
		long v = atomic_load(&x_ran); if (v != last) { last = v; idle = 0; } else idle++; }
	if (atomic_load(&x_ran) != want) FAIL(prop, "%ld of %ld items ran (no further item ran for 10 s)", atomic_load(&x_ran), want);
}
static void scn_suspend_resume(int scale) {
	cur_scn = "suspend_resume";
	for (int conc = 0; conc < 2; conc++) {
		atomic_store(&x_ran, 0);
		dispatch_queue_t q = LW_NEWQ(dispatch_queue_create(conc ? "srC" : "srS", conc ? DISPATCH_QUEUE_CONCURRENT : DISPATCH_QUEUE_SERIAL));
		pthread_t th[6]; x_work_t w[6]; int n = 150 * scale;
		for (int t = 0; t < 6; t++) { w[t] = (x_work_t){ q, n, rnd() | 1, 1 }; pthread_create(&th[t], NULL, t < 3 ? x_producer : x_suspender, &w[t]); }
		for (int t = 0; t < 6; t++) pthread_join(th[t], NULL);
		dispatch_barrier_sync_f(q, NULL, x_item); x_expect("C01", 3L * n + 1);
		// deep nesting: the suspend count overflows into the side count and comes back (slow paths)
		atomic_store(&x_ran, 0);
		for (int i = 0; i < 100; i++) { dispatch_suspend(q); if (i % 10 == 0) dispatch_async_f(q, NULL, x_item); }
		if (atomic_load(&x_ran) != 0) FAIL("C01", "item ran on a suspended queue");
		for (int i = 0; i < 100; i++) dispatch_resume(q);
		dispatch_barrier_sync_f(q, NULL, x_item); x_expect("C01", 11);
		// suspended from inside its own item, resumed from outside
		atomic_store(&x_ran, 0);
		dispatch_async(q, ^{ dispatch_suspend(q); x_item(NULL); }); dispatch_async_f(q, NULL, x_item);
		usleep(20000); dispatch_resume(q); dispatch_barrier_sync_f(q, NULL, x_item); x_expect("C01", 3);
	}
	printf("OK suspend_resume\n"); fflush(stdout);
}
static void scn_activate(int scale) {
	cur_scn = "activate";
	dispatch_queue_t T = LW_NEWQ(dispatch_queue_create("acT", DISPATCH_QUEUE_SERIAL));
	dispatch_queue_t U = LW_NEWQ(dispatch_queue_create("acU", DISPATCH_QUEUE_CONCURRENT));
	for (int round = 0; round < 12 * scale; round++) {
		atomic_store(&x_ran, 0); int conc = round & 1, how = round % 6;
		dispatch_queue_attr_t a = dispatch_queue_attr_make_initially_inactive(conc ? DISPATCH_QUEUE_CONCURRENT : DISPATCH_QUEUE_SERIAL);
		dispatch_queue_t q = LW_NEWQ(dispatch_queue_create("acQ", a));
		for (int i = 0; i < 5; i++) dispatch_async_f(q, NULL, x_item);          // held: the queue is inactive
		if (how >= 1) dispatch_set_target_queue(q, (how & 1) ? T : U);           // retarget while inactive
		if (how >= 2) { dispatch_suspend(q); dispatch_suspend(q); }
		if (how == 3) dispatch_set_target_queue(q, T);
		usleep(2000); if (atomic_load(&x_ran) != 0) FAIL("C01", "item ran on an inactive queue");
		if (how == 4) { pthread_t t; x_work_t w = { q, 1, 1, 0 }; pthread_create(&t, NULL, x_producer, &w); dispatch_activate(q); pthread_join(t, NULL); atomic_fetch_sub(&x_ran, 1); }
		else if (how == 5) { dispatch_resume(q); dispatch_activate(q); dispatch_resume(q); }   // resume before activate (suspend count taken above)
		else dispatch_activate(q);
		if (how >= 2 && how != 5) { usleep(1000); dispatch_resume(q); dispatch_resume(q); }
		dispatch_activate(q);                                                    // second activate: no-op
		dispatch_barrier_sync_f(q, NULL, x_item); x_expect("C01", 6);
	}
	printf("OK activate\n"); fflush(stdout);
}
static void scn_apply(int scale) {
	cur_scn = "apply";
	dispatch_queue_t c = LW_NEWQ(dispatch_queue_create("apC", DISPATCH_QUEUE_CONCURRENT));
	dispatch_queue_t s = LW_NEWQ(dispatch_queue_create("apS", DISPATCH_QUEUE_SERIAL));
	dispatch_queue_t cs = LW_NEWQ(dispatch_queue_create_with_target("apCS", DISPATCH_QUEUE_CONCURRENT, s));
	dispatch_queue_t cc = LW_NEWQ(dispatch_queue_create_with_target("apCC", DISPATCH_QUEUE_CONCURRENT, c));
	dispatch_queue_t qs[] = { c, s, cs, cc };
	for (int round = 0; round < 10 * scale; round++) {
		atomic_store(&x_ran, 0); dispatch_queue_t q = qs[round % 4]; size_t n = 3 + (size_t)(rnd() % 60);
		pthread_t th[2]; x_work_t w[2]; for (int t = 0; t < 2; t++) { w[t] = (x_work_t){ q, 20, rnd() | 1, 1 }; pthread_create(&th[t], NULL, x_producer, &w[t]); }
		dispatch_apply_f(n, q, NULL, x_apply);
		dispatch_apply_f(n, q, NULL, x_apply);
		for (int t = 0; t < 2; t++) pthread_join(th[t], NULL);
		dispatch_barrier_sync_f(q, NULL, x_item); x_expect("C01", (long)(2 * n) + 41);
	}
	printf("OK apply\n"); fflush(stdout);
}
static void scn_retarget(int scale) {
	cur_scn = "retarget";
	dispatch_queue_t T1 = LW_NEWQ(dispatch_queue_create("rtT1", DISPATCH_QUEUE_SERIAL)), T2 = LW_NEWQ(dispatch_queue_create("rtT2", DISPATCH_QUEUE_CONCURRENT));
	dispatch_queue_t q = LW_NEWQ(dispatch_queue_create("rtQ", DISPATCH_QUEUE_SERIAL)), r = LW_NEWQ(dispatch_queue_create("rtR", DISPATCH_QUEUE_CONCURRENT));
	atomic_store(&x_ran, 0); long want = 0;
	for (int round = 0; round < 20 * scale; round++) {
		dispatch_queue_t x = (round & 1) ? r : q;
		for (int i = 0; i < 10; i++) dispatch_async_f(x, NULL, (i & 3) ? x_item : x_slow); want += 10;
		dispatch_set_target_queue(x, (round & 2) ? T1 : T2);     // legacy retarget of an active queue: barrier + suspension
		for (int i = 0; i < 10; i++) dispatch_async_f(x, NULL, x_item); want += 10;
		if ((round & 3) == 3) { dispatch_sync_f(x, NULL, x_item); want++; }
	}
	dispatch_barrier_sync_f(q, NULL, x_item); dispatch_barrier_sync_f(r, NULL, x_item); want += 2; x_expect("C01", want);
	printf("OK retarget\n"); fflush(stdout);
}
static void scn_set_width(int scale) {
	cur_scn = "set_width";
	dispatch_queue_t c = LW_NEWQ(dispatch_queue_create("swC", DISPATCH_QUEUE_CONCURRENT));
	atomic_store(&x_ran, 0); long want = 0; static const long ws[] = { 2, 7, -1, -2, -3, 4095, 3, 5 };   // never 1: see c01_setwidth_witness.c
	for (int round = 0; round < 8 * scale; round++) {
		for (int i = 0; i < 20; i++) dispatch_async_f(c, NULL, x_item); want += 20;
		dispatch_queue_set_width(c, ws[round % 8]);
		for (int i = 0; i < 20; i++) { if (i % 5 == 4) dispatch_barrier_async_f(c, NULL, x_item); else dispatch_async_f(c, NULL, x_item); } want += 20;
		dispatch_sync_f(c, NULL, x_item); want++;
		dispatch_barrier_sync_f(c, NULL, x_item); want++; lw_note_width(c);   // the width change is itself a barrier item: applied by now
	}
	dispatch_barrier_sync_f(c, NULL, x_item); want++; x_expect("C01", want);
	printf("OK set_width\n"); fflush(stdout);
}

// ------------------------------------------------------------------ dump
static lw_q_t *lw_owner(lw_thr_t *t, size_t i, lw_ev_t *e, long *off) {
	for (int k = lw_nq - 1; k >= 0; k--) { lw_q_t *r = &lw_qs[k];
		if (e->addr >= r->addr && e->addr < r->addr + 8) {
			if ((t->idx == r->creator && i >= r->begin_index) || e->seq > r->seq_end) { *off = (long)(e->addr - r->addr); return r; }
			return NULL; } }
	return NULL;
}
static void lw_dump(const char *path) {
	// quiescence: no operation recorded anywhere for a while, and every queue word stable
	// (four samples in a row without any operation: a thread descheduled in the middle of a drain on a loaded machine must not
	// look like silence; bounded by 60 s of continuing activity, after which the queues are reported as not quiescent)
	for (int k = 0, still = 0; k < 1200 && still < 4; k++) { uint64_t n1 = atomic_load(&lw_seq); usleep(50000); still = atomic_load(&lw_seq) == n1 ? still + 1 : 0; }
	for (int i = 0; i < lw_nq; i++) lw_qs[i].final = lw_read_state(lw_qs[i].q);
	atomic_store(&lw_on, 0); usleep(100000);
	for (int i = 0; i < lw_nq; i++) lw_qs[i].quiescent = lw_qs[i].final == lw_read_state(lw_qs[i].q);
	FILE *f = fopen(path, "w"); if (!f) { perror(path); return; }
	for (int i = 0; i < lw_nconst(); i++) fprintf(f, "C %d %llu\n", i, lw_const(i));
	for (int i = 0; i < atomic_load(&lw_nfiles); i++) fprintf(f, "F %d %s\n", i, (const char *)lw_files[i]);
	for (int i = 0; i < lw_nq; i++) { lw_q_t *r = &lw_qs[i]; char lab[48]; size_t j = 0;
		for (const char *p = r->label; *p && j < 47; p++) if (*p != ' ' && *p != '\t') lab[j++] = *p; lab[j] = 0;
		lw_note_width(r->q); char ws[160]; size_t o = 0; for (int k = 0; k < r->nwidth; k++) o += (size_t)snprintf(ws + o, sizeof ws - o, "%s%d", k ? "," : "", r->width[k]);
		fprintf(f, "Q %d %s %s %lu %d %llu %llu %d\n", i, lab, ws, r->type, r->creator, r->init, r->final, r->quiescent); }
	unsigned long long total = 0;
	pthread_mutex_lock(&lw_mu);
	for (lw_thr_t *t = lw_threads; t; t = t->next) { int pending = 0, lfile = -1, lline = -1;
		for (size_t i = 0; i < t->n; i++) { lw_ev_t *e = &t->ev[i]; if (e->kind >= LW_CREATE_BEGIN) continue; total++;
			long off = 0; lw_q_t *r = lw_owner(t, i, e, &off);
			if (r) { int cw = (t->idx == r->creator && e->seq < r->seq_end);     // inside the creation call of that queue
				fprintf(f, "E %d %ld %llu %d %d %d %ld %d %llu %llu %d %d %d %d\n", t->idx, t->tid, (unsigned long long)e->seq, e->kind, e->order, (int)(r - lw_qs), off,
					e->size, e->a, e->b, e->ok, e->file, e->line, cw); pending = 1; lfile = e->file; lline = e->line; }
			// operations on other words inside a loop body carry the loop's line: only a different line proves the loop was left
			else if (pending && (e->file != lfile || e->line != lline)) { fprintf(f, "X %d %d %d\n", t->idx, e->file, e->line); pending = 0; } } }
	pthread_mutex_unlock(&lw_mu);
	fprintf(f, "N %llu\n", total); fclose(f);
}

// a crash of the library (DISPATCH_CLIENT_CRASH / DISPATCH_INTERNAL_CRASH are traps) still leaves the recording behind
static void lw_on_crash(int sig) { signal(sig, SIG_DFL); printf("FAIL C01 %s CRASH: the library trapped (signal %d)\n", cur_scn, sig); fflush(stdout);
	done_all = 1; lw_dump(lw_dump_path); _exit(4); }

int main(int argc, char **argv) {
	uint64_t seed = argc > 1 ? strtoull(argv[1], 0, 10) : 1; const char *which = argc > 2 ? argv[2] : "all";
	int permille = argc > 3 ? atoi(argv[3]) : 0; int scale = argc > 4 ? atoi(argv[4]) : 1; const char *dump = argc > 5 ? argv[5] : "/dev/null";
	lw_dump_path = dump; signal(SIGILL, lw_on_crash); signal(SIGSEGV, lw_on_crash); signal(SIGABRT, lw_on_crash);
	lw_install(seed, permille);
	int rc = lanes_main(argc > 5 ? 5 : argc, argv);      // its scenarios (none when `which` names one of ours); starts the watchdog
	done_all = 0; pthread_t wd; pthread_create(&wd, NULL, watchdog, NULL);
	int before = nfail;
	if (WANT("suspend_resume")) scn_suspend_resume(scale);
	if (WANT("activate")) scn_activate(scale);
	if (WANT("apply")) scn_apply(scale);
	if (WANT("retarget")) scn_retarget(scale);
	if (WANT("set_width")) scn_set_width(scale);
	done_all = 1;
	lw_dump(dump);
	printf("DUMPED queues=%d failures=%d\n", lw_nq, nfail);
	return (rc || nfail != before) ? 1 : 0;
}
