// C01 (root queue): differential harness for the pool monitor's decision, _dispatch_workq_monitor_pools +
// _dispatch_workq_count_runnable_workers (src/event/workqueue.c), against RootQ.mon_pass.
// White box: this file includes workqueue.c (its statics are reachable; link with exclude_objs workqueue.c.o) and the
// monitor's calls to _dispatch_root_queue_poke are intercepted with -Wl,--wrap (they are only recorded).  The monitors
// are pointed at fake queue structures (only dq_items_tail is read) and at thread ids of this program's helper threads:
// NR threads spinning in user space (runnable) and NS threads blocked in sem_wait (not runnable), so that the real
// /proc/<tid>/stat reader is exercised.  No work is ever dispatched, so the library's own monitor never starts.
// usage: c01_root_mon <seed> <cases>
// output: "H <ncpu> <nbuckets> <max_tracked>", then per case
//   "M <target> | <probe> <nrun> <nblocked> (x nbuckets, bucket 0 first) | <bucket>:<n>:<floor> ..."   (pokes in call order)
#include "internal.h"
#include "event/workqueue.c"
#include <semaphore.h>
#include <sys/syscall.h>

#define NR 6
#define NS 6
static long rtid[NR], stid[NS]; static sem_t never; static volatile int stop; static _Atomic int up;
static struct dispatch_queue_global_s fq[DISPATCH_QOS_NBUCKETS];
static dispatch_tid tids[DISPATCH_QOS_NBUCKETS][NR + NS];
static struct { int bucket, n, floor; } pokes[64]; static int npokes;

void __wrap__dispatch_root_queue_poke(dispatch_queue_global_t dq, int n, int floor) {
	if (npokes < 64) { pokes[npokes].bucket = (int)(dq - fq); pokes[npokes].n = n; pokes[npokes].floor = floor; npokes++; }
}
static void *spinner(void *a) { rtid[(long)a] = (long)syscall(SYS_gettid); atomic_fetch_add(&up, 1); while (!stop) { __asm__ volatile("" ::: "memory"); } return NULL; }
static void *sleeper(void *a) { stid[(long)a] = (long)syscall(SYS_gettid); atomic_fetch_add(&up, 1); while (sem_wait(&never) != 0) {} return NULL; }
static uint64_t rnd(uint64_t *s) { uint64_t z = (*s += 0x9E3779B97F4A7C15ull); z = (z ^ (z >> 30)) * 0xBF58476D1CE4E5B9ull;
	z = (z ^ (z >> 27)) * 0x94D049BB133111EBull; return z ^ (z >> 31); }

int main(int argc, char **argv) {
	uint64_t seed = argc > 1 ? strtoull(argv[1], 0, 10) : 1; int cases = argc > 2 ? atoi(argv[2]) : 100;
	int ncpu = (int)dispatch_hw_config(active_cpus);
	sem_init(&never, 0, 0);
	pthread_t th;
	for (long i = 0; i < NR; i++) pthread_create(&th, NULL, spinner, (void *)i);
	for (long i = 0; i < NS; i++) pthread_create(&th, NULL, sleeper, (void *)i);
	while (atomic_load(&up) < NR + NS) usleep(100);
	usleep(30000);   // let the sleepers reach sem_wait
	printf("H %d %d %d\n", ncpu, (int)DISPATCH_QOS_NBUCKETS, (int)WORKQ_MAX_TRACKED_TIDS);
	uint64_t r = seed * 0x9E3779B97F4A7C15ull + 7;
	for (int c = 0; c < cases; c++) {
		// targets around the decision boundaries: 1, the number of runnable threads +-1, ncpu, large
		int tsel = (int)(rnd(&r) % 8); int target = tsel == 0 ? 1 : tsel == 1 ? ncpu : tsel == 2 ? 2 * ncpu : tsel == 3 ? 300 : 1 + (int)(rnd(&r) % (NR + 2));
		printf("M %d |", target);
		for (int b = 0; b < DISPATCH_QOS_NBUCKETS; b++) {
			dispatch_workq_monitor_t mon = &_dispatch_workq_monitors[b];
			int probe = (rnd(&r) % 4) != 0;
			int m = (int)(rnd(&r) % 6); int nr = m == 0 ? 0 : m == 1 ? NR : (int)(rnd(&r) % (NR + 1));
			int ns = (int)(rnd(&r) % (NS + 1));
			int k = 0;
			for (int i = 0; i < nr; i++) tids[b][k++] = (dispatch_tid)rtid[i];
			for (int i = 0; i < ns; i++) tids[b][k++] = (dispatch_tid)stid[i];
			// shuffle so that the order of registration does not matter
			for (int i = k - 1; i > 0; i--) { int j = (int)(rnd(&r) % (unsigned)(i + 1)); dispatch_tid t = tids[b][i]; tids[b][i] = tids[b][j]; tids[b][j] = t; }
			fq[b].dq_items_tail = probe ? (struct dispatch_object_s *)(uintptr_t)0x1000 : NULL;
			fq[b].dq_label = "fake";
			mon->dq = &fq[b]; mon->target_runnable = target; mon->registered_tids = tids[b]; mon->num_registered_tids = k;
			printf(" %d %d %d", probe, nr, ns);
		}
		npokes = 0;
		_dispatch_workq_monitor_pools(NULL);
		printf(" |");
		for (int i = 0; i < npokes; i++) printf(" %d:%d:%d", pokes[i].bucket, pokes[i].n, pokes[i].floor);
		printf("\n");
	}
	fflush(stdout);
	_exit(0);
}
