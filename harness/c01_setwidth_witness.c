// Witness (found by the word-transition recording of harness/c01_lanewords.c, scenario set_width): on the unmodified library,
// dispatch_queue_set_width(q, 1) [deprecated SPI, private/queue_private.h] on a concurrent queue that still has items in
// flight is applied asynchronously as a barrier item; a dispatch_sync_f() that raced it was enqueued as a NON-barrier waiter
// (dq_width was still > 1). When the set_width barrier completes, _dispatch_lane_barrier_complete() sees dq_width == 1, treats
// the waiter as a barrier and hands it the whole queue (IN_BARRIER | owner = waiter, src/queue.c _dispatch_lane_drain_barrier_waiter);
// the waiter, being a non-barrier sync, completes through _dispatch_lane_non_barrier_complete() which only gives back one
// width unit: IN_BARRIER and the owner bits stay set for ever. The next dispatch_sync of that thread traps ("dispatch_sync
// called on queue already owned by current thread"), any other thread's items are stranded.
//   build: clang-16 -fblocks -I/repo -I/repo/private -I<build> c01_setwidth_witness.c -L<build> -ldispatch -lBlocksRuntime
//   run:   ./a.out 20 1   -> SIGILL after "sync returned";   ./a.out 20 2 -> fine
#include <dispatch/dispatch.h>
#include <stdio.h>
#include <stdlib.h>
#include <unistd.h>
#include <stdatomic.h>
extern void dispatch_queue_set_width(dispatch_queue_t dq, long width);
static _Atomic int ran; static void item(void *c) { (void)c; atomic_fetch_add(&ran, 1); }
int main(int argc, char **argv) {
	int nitems = argc > 1 ? atoi(argv[1]) : 20; long w = argc > 2 ? atol(argv[2]) : 1;
	dispatch_queue_t c = dispatch_queue_create("swC", DISPATCH_QUEUE_CONCURRENT);
	for (int i = 0; i < nitems; i++) dispatch_async_f(c, NULL, item);
	dispatch_queue_set_width(c, w);
	printf("set_width returned ran=%d\n", ran); fflush(stdout);
	dispatch_sync_f(c, NULL, item);
	printf("sync returned ran=%d\n", ran); fflush(stdout);
	dispatch_barrier_sync_f(c, NULL, item);
	printf("done ran=%d\n", ran);
	return 0;
}
