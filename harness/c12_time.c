// C12 correspondence driver: runs the public time functions (and, white-box, the two internal
// conversions used by timed waits) of the library built from /repo's working tree on inputs read from stdin.
//   T <inval> <delta>              -> dispatch_time(inval, delta)            (deterministic bases)
//   N <inval> <delta>              -> t0 r t1 : clock of the base read before/after (NOW-relative bases)
//   W <sec> <nsec> <delta>         -> dispatch_walltime(&ts, delta)
//   V <delta>                      -> t0 r t1 : dispatch_walltime(NULL, delta) bracketed by CLOCK_REALTIME
//   O <when>                       -> u0 m0 w0 r u1 m1 w1 : _dispatch_timeout(when) bracketed by all clocks
//   E <when>                       -> u0 m0 w0 r u1 m1 w1 : _dispatch_time_nanoseconds_since_epoch(when)
#include <dispatch/dispatch.h>
#include <stdio.h>
#include <stdint.h>
#include <inttypes.h>
#include <string.h>
#include <time.h>

extern uint64_t _dispatch_timeout(dispatch_time_t when);
extern uint64_t _dispatch_time_nanoseconds_since_epoch(dispatch_time_t when);

static uint64_t rd(clockid_t c) { struct timespec ts; clock_gettime(c, &ts); return (uint64_t)ts.tv_sec * 1000000000ull + (uint64_t)ts.tv_nsec; }
static clockid_t clock_of(uint64_t t) {
	if ((int64_t)t >= 0) return CLOCK_MONOTONIC;           // uptime
	if (t & (1ull << 62)) return CLOCK_REALTIME;             // wall
	return CLOCK_BOOTTIME;                                   // monotonic
}

int main(void) {
	char line[512];
	while (fgets(line, sizeof line, stdin)) {
		char cmd; uint64_t a = 0; int64_t b = 0, c = 0, d = 0;
		if (sscanf(line, " %c", &cmd) != 1) continue;
		switch (cmd) {
		case 'T': sscanf(line + 1, "%" SCNu64 " %" SCNd64, &a, &b);
			printf("%" PRIu64 "\n", (uint64_t)dispatch_time(a, b)); break;
		case 'N': { sscanf(line + 1, "%" SCNu64 " %" SCNd64, &a, &b);
			clockid_t ck = clock_of(a); uint64_t t0 = rd(ck); uint64_t r = dispatch_time(a, b); uint64_t t1 = rd(ck);
			printf("%" PRIu64 " %" PRIu64 " %" PRIu64 "\n", t0, r, t1); break; }
		case 'W': { sscanf(line + 1, "%" SCNd64 " %" SCNd64 " %" SCNd64, &b, &c, &d);
			struct timespec ts; ts.tv_sec = (time_t)b; ts.tv_nsec = (long)c;
			printf("%" PRIu64 "\n", (uint64_t)dispatch_walltime(&ts, d)); break; }
		case 'V': { sscanf(line + 1, "%" SCNd64, &b);
			uint64_t t0 = rd(CLOCK_REALTIME); uint64_t r = dispatch_walltime(NULL, b); uint64_t t1 = rd(CLOCK_REALTIME);
			printf("%" PRIu64 " %" PRIu64 " %" PRIu64 "\n", t0, r, t1); break; }
		case 'O': case 'E': { sscanf(line + 1, "%" SCNu64, &a);
			uint64_t u0 = rd(CLOCK_MONOTONIC), m0 = rd(CLOCK_BOOTTIME), w0 = rd(CLOCK_REALTIME);
			uint64_t r = cmd == 'O' ? _dispatch_timeout(a) : _dispatch_time_nanoseconds_since_epoch(a);
			uint64_t u1 = rd(CLOCK_MONOTONIC), m1 = rd(CLOCK_BOOTTIME), w1 = rd(CLOCK_REALTIME);
			printf("%" PRIu64 " %" PRIu64 " %" PRIu64 " %" PRIu64 " %" PRIu64 " %" PRIu64 " %" PRIu64 "\n", u0, m0, w0, r, u1, m1, w1);
			break; }
		default: printf("?\n");
		}
	}
	return 0;
}
