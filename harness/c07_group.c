// C07 stress client + recorder (white-box only for the address of dg_state / dq_items_tail): rounds of 2..8 threads
// running random scripts of enter / leave / group_async_f / notify_f / wait(NOW, timed 50us-5ms, FOREVER) on one
// group per round, across many generations, with schedule perturbation inside the library's atomic windows and
// SIGUSR1 storms (EINTR) aimed at threads that may be parked.
// usage: c07_group <seed> <rounds> <perturb_permille>
// round kinds: 0 random mix; 1 many simultaneous waiters, short timeouts expiring while others keep waiting, then the
// last leave; 2 notify / enter+notify racing the last leave of the previous generation.
// output: "R <round> <kind> <nthreads>", "STUCK ..." / "UNFIRED ..." / "MULTI ..." witnesses, then the recorder dump
// (obj = round for the group's words [dg_state, dg_notify_head, dg_notify_tail]; obj = 100000 + round for the
// dq_items_tail word of the queue that receives the notification blocks).
#include "internal.h"
#include <signal.h>
#include <errno.h>
#include "dv_record.h"

#define MAXT 8
#define MAXN 4096
enum { OP_ENTER = 1, OP_LEAVE = 2, OP_WAIT = 3, OP_NOTIFY = 4, OP_ASYNC = 5 };

static dispatch_group_t g; static dispatch_queue_t nq, wq; static int cur_round, cur_kind;
static _Atomic long tokens;            // enters that have returned and are not yet reserved by a leave
static _Atomic int active_others;      // threads other than the closer still running their script
static _Atomic long progress;          // bumped after every completed API call / callout
static _Atomic int async_pending, notif_registered;
static _Atomic long adds_recorded, leaves_expected;   // recorded atomic adds on dg_state / leaves performed (API + work items)
static _Atomic int notif_runs[MAXN];
typedef struct { int idx, nops; uint64_t rng; volatile int cur_op; volatile int done; } targ_t;
static targ_t ta[MAXT]; static pthread_t th[MAXT]; static int nthreads;

static inline uint64_t rnd(uint64_t *s) { uint64_t x = *s; x ^= x << 13; x ^= x >> 7; x ^= x << 17; return *s = x; }

static void work_fn(void *ctx) {
	long id = (long)ctx;
	dv_user(DVU_CALLOUT_BEGIN, cur_round, OP_ASYNC, (unsigned long long)id);
	if (id % 3 == 0) usleep((useconds_t)(id * 37 % 200)); else if (id % 3 == 1) sched_yield();
	atomic_fetch_sub(&async_pending, 1);
	atomic_fetch_add(&progress, 1);
	dv_user(DVU_CALLOUT_END, cur_round, OP_ASYNC, (unsigned long long)id);
	// libdispatch performs the dispatch_group_leave after this function returns (DC_FLAG_GROUP_ASYNC)
}
static void notif_fn(void *ctx) {
	long id = (long)ctx;
	dv_user(DVU_CALLOUT_BEGIN, cur_round, OP_NOTIFY, (unsigned long long)id);
	atomic_fetch_add(&notif_runs[id], 1);
	atomic_fetch_add(&progress, 1);
	dv_user(DVU_CALLOUT_END, cur_round, OP_NOTIFY, (unsigned long long)id);
}
static void do_enter(void) {
	dv_user(DVU_CALL, cur_round, OP_ENTER, 0); dispatch_group_enter(g); dv_user(DVU_RET, cur_round, 0, 0);
	atomic_fetch_add(&tokens, 1);
}
static int do_leave(void) {
	long t = atomic_load(&tokens);
	while (t > 0 && !atomic_compare_exchange_weak(&tokens, &t, t - 1)) { }
	if (t <= 0) return 0;
	atomic_fetch_add(&leaves_expected, 1);
	dv_user(DVU_CALL, cur_round, OP_LEAVE, 0); dispatch_group_leave(g); dv_user(DVU_RET, cur_round, 0, 0);
	return 1;
}
static void do_async(uint64_t *r) {
	static _Atomic long wid; long id = atomic_fetch_add(&wid, 1); (void)r;
	atomic_fetch_add(&async_pending, 1); atomic_fetch_add(&leaves_expected, 1);
	dv_user(DVU_CALL, cur_round, OP_ASYNC, (unsigned long long)id);
	dispatch_group_async_f(g, wq, (void *)id, work_fn);
	dv_user(DVU_RET, cur_round, 0, 0);
}
static void do_notify(void) {
	long id = atomic_fetch_add(&notif_registered, 1);
	if (id >= MAXN) { atomic_fetch_sub(&notif_registered, 1); return; }
	dv_user(DVU_CALL, cur_round, OP_NOTIFY, (unsigned long long)id);
	dispatch_group_notify_f(g, nq, (void *)id, notif_fn);
	dv_user(DVU_RET, cur_round, 0, 0);
}
// kind: 0 NOW, 1 FOREVER, 2 timed (usec)
static long do_wait(int kind, unsigned usec) {
	dispatch_time_t tmo = kind == 0 ? DISPATCH_TIME_NOW : kind == 1 ? DISPATCH_TIME_FOREVER :
			dispatch_time(DISPATCH_TIME_NOW, (int64_t)usec * 1000);
	dv_user(DVU_CALL, cur_round, OP_WAIT, (unsigned long long)tmo);
	long rc = dispatch_group_wait(g, tmo);
	// judged with the library's own clock: has the deadline been reached when a non-zero result comes back?
	int reached = kind == 0 ? 1 : kind == 1 ? 0 : (dispatch_time(DISPATCH_TIME_NOW, 0) + 1000 >= tmo);
	dv_user(DVU_RET, cur_round, rc != 0, (unsigned long long)reached);
	return rc;
}

static void *thr(void *a) {
	targ_t *t = (targ_t *)a; uint64_t *r = &t->rng;
	if (cur_kind == 1) {
		// one unit of work is held for 8-12 ms while the others wait: short timeouts expire while FOREVER / later waiters
		// keep waiting; then the holder leaves and everybody still waiting must come back
		if (t->idx == 0) {
			do_enter(); atomic_fetch_add(&progress, 1);
			usleep((useconds_t)(8000 + rnd(r) % 4000));
		} else {
			usleep((useconds_t)(200 + rnd(r) % 600));      // let the holder enter first (not required for correctness)
			int n = 1 + (int)(rnd(r) % 3);
			for (int i = 0; i < n; i++) {
				t->cur_op = 32; do_wait(2, 50 + (unsigned)(rnd(r) % 2500)); t->cur_op = 0; atomic_fetch_add(&progress, 1);
			}
			if (t->idx % 2 == 0 || (rnd(r) & 3) == 0) {
				t->cur_op = 31; do_wait(1, 0); t->cur_op = 0; atomic_fetch_add(&progress, 1);
			}
		}
	} else
	for (int i = 0; i < t->nops; i++) {
		unsigned c = (unsigned)(rnd(r) % 100);
		int op;
		if (cur_kind == 0) op = c < 20 ? 1 : c < 45 ? 2 : c < 58 ? 5 : c < 70 ? 4 : c < 78 ? 30 : c < 90 ? 32 : c < 95 ? 31 : 9;
		else if (cur_kind == 1) op = t->idx == 0 ? (c < 30 ? 1 : c < 70 ? 9 : 2) : (c < 45 ? 32 : c < 75 ? 31 : c < 85 ? 30 : c < 92 ? 1 : 2);
		else op = c < 22 ? 1 : c < 50 ? 2 : c < 80 ? 4 : c < 88 ? 5 : c < 94 ? 30 : 32;
		t->cur_op = op;
		switch (op) {
		case 1: do_enter(); if (cur_kind == 2 && (rnd(r) & 1)) do_notify(); break;
		case 2: do_leave(); break;
		case 5: do_async(r); break;
		case 4: do_notify(); break;
		case 30: do_wait(0, 0); break;
		case 31: if (t->idx != 0) do_wait(1, 0); else do_wait(2, 300); break;   // the closer never waits forever
		case 32: do_wait(2, 50 + (unsigned)(rnd(r) % (cur_kind == 1 ? 2000 : 4950))); break;
		default: usleep((useconds_t)(rnd(r) % (cur_kind == 1 ? 3000 : 150))); break;
		}
		t->cur_op = 0;
		atomic_fetch_add(&progress, 1);
	}
	if (t->idx != 0) { atomic_fetch_sub(&active_others, 1); t->done = 1; return NULL; }
	// the closer: leaves whatever is outstanding until everybody else has finished
	for (;;) {
		if (do_leave()) { atomic_fetch_add(&progress, 1); continue; }
		if (atomic_load(&active_others) == 0 && atomic_load(&tokens) == 0) break;
		usleep(100);
	}
	t->done = 1;
	return NULL;
}
static void on_sig(int s) { (void)s; }
// the recorder's callback, plus a count of the leaves whose atomic add on dg_state HAS BEEN RECORDED: a worker thread can be
// preempted between an operation and the callback that records it, so the end of a round waits for the records, not for the
// effects (see the barrier in main)
static void c07_cb(const volatile void *addr, unsigned size, int kind, int order, unsigned long long a, unsigned long long b,
		int ok, const char *file, int line) {
	dv_cb(addr, size, kind, order, a, b, ok, file, line);
	if (kind == DV_ADD && g && addr == (const volatile void *)&g->dg_state) atomic_fetch_add(&adds_recorded, 1);
}
// dump like dv_dump, but a run of loads of NULL from dg_notify_head by one thread at one site (the spin of
// os_mpsc_get_head / _dispatch_wait_for_enqueuer) is written once: the model accepts any number of them
static void c07_dump(FILE *f) {
	pthread_mutex_lock(&dv_mu);
	for (dv_thr_t *t = dv_threads; t; t = t->next) {
		dv_ev_t *prev = NULL;
		for (size_t i = 0; i < t->n; i++) { dv_ev_t *e = &t->ev[i];
			if (prev && e->kind == DV_LOAD && prev->kind == DV_LOAD && e->obj == prev->obj && e->off == 8 && prev->off == 8 && e->a == 0 &&
					e->a == prev->a && e->order == prev->order && e->line == prev->line) continue;
			prev = e;
			fprintf(f, "E %d %ld %llu %d %d %d %ld %d %llu %llu %d %d\n", t->idx, t->tid, (unsigned long long)e->seq, e->kind,
					e->order, e->obj, e->off, e->size, e->a, e->b, e->ok, e->line); }
	}
	pthread_mutex_unlock(&dv_mu);
}

static void stuck_exit(const char *why) {
	for (int k = 0; k < nthreads; k++) if (!ta[k].done && ta[k].cur_op) printf("STUCK %d %d %d %s\n", cur_round, k, ta[k].cur_op, why);
	printf("STATE %d %llu tokens=%ld async_pending=%d\n", cur_round, (unsigned long long)(*(volatile uint64_t *)&g->dg_state),
			atomic_load(&tokens), atomic_load(&async_pending));
	c07_dump(stdout); fflush(stdout); _exit(0);
}

int main(int argc, char **argv) {
	uint64_t seed = argc > 1 ? strtoull(argv[1], 0, 10) : 1; int nrounds = argc > 2 ? atoi(argv[2]) : 30;
	int permille = argc > 3 ? atoi(argv[3]) : 150;
	int only_kind = argc > 4 ? atoi(argv[4]) : -1;
	struct sigaction sa; memset(&sa, 0, sizeof sa); sa.sa_handler = on_sig; sigaction(SIGUSR1, &sa, NULL); // no SA_RESTART
	wq = dispatch_get_global_queue(0, 0);
	dv_install(seed, permille);
	_dispatch_verif_cb = c07_cb;
	uint64_t r = seed * 6364136223846793005ull + 1442695040888963407ull;
	for (int i = 0; i < nrounds; i++) {
		r = r * 6364136223846793005ull + 1442695040888963407ull;
		cur_round = i; cur_kind = only_kind >= 0 ? only_kind : (int)((r >> 40) % 3);
		nthreads = 2 + (int)((r >> 33) % (MAXT - 1));
		if (cur_kind == 1 && nthreads < 3) nthreads = 3;
		g = dispatch_group_create(); nq = dispatch_queue_create("c07.notify", NULL);
		dv_untrack_all();   // a new group may reuse the address of a released one: only this round's ranges are tracked
		dv_track(&g->dg_state, 24, i);
		dv_track(&((dispatch_lane_t)nq)->dq_items_tail, sizeof(void *), 100000 + i);
		atomic_store(&tokens, 0); atomic_store(&notif_registered, 0); atomic_store(&async_pending, 0);
		atomic_store(&adds_recorded, 0); atomic_store(&leaves_expected, 0);
		int base_refs = *(volatile int *)&g->do_ref_cnt;
		for (int k = 0; k < MAXN; k++) atomic_store(&notif_runs[k], 0);
		atomic_store(&active_others, nthreads - 1);
		printf("R %d %d %d\n", i, cur_kind, nthreads);
		for (int k = 0; k < nthreads; k++) {
			ta[k].idx = k; ta[k].nops = 30 + (int)((r >> (k + 5)) % 70); ta[k].done = 0; ta[k].cur_op = 0;
			ta[k].rng = (r ^ (uint64_t)(k + 1) * 0x9E3779B97F4A7C15ull) | 1;
			pthread_create(&th[k], NULL, thr, &ta[k]);
		}
		// signal storm + watchdog: no API call may stay blocked once nothing else makes progress
		long last = -1; int idle_ms = 0;
		for (int j = 0;; j++) {
			int alldone = 1; for (int k = 0; k < nthreads; k++) if (!ta[k].done) alldone = 0;
			if (alldone) break;
			usleep(1000);
			// signals only early in the round: an EINTR re-arms the futex wait, which would rescue a waiter left behind
			if (j % 3 == 0 && j < (cur_kind == 1 ? 6 : 30)) { int v = (int)((r >> (j % 40)) % (unsigned)nthreads); if (!ta[v].done) pthread_kill(th[v], SIGUSR1); }
			long p = atomic_load(&progress);
			if (p != last) { last = p; idle_ms = 0; } else if (++idle_ms > 10000) stuck_exit("no-progress-10s");
		}
		for (int k = 0; k < nthreads; k++) pthread_join(th[k], NULL);
		// quiescence: every group_async item has run and left; then every registered notification must have run once.
		// All waits are bounded by LACK OF PROGRESS (10 s without any change), never by elapsed time: the machine may be loaded
		{ long lastp = -1; int idle = 0;
		  while (atomic_load(&async_pending) > 0 || (uint32_t)(*(volatile uint64_t *)&g->dg_state) != 0) {
			usleep(1000);
			long p = atomic_load(&progress) + (long)(uint32_t)(*(volatile uint64_t *)&g->dg_state);
			if (p != lastp) { lastp = p; idle = 0; } else if (++idle > 10000) stuck_exit("async-or-count-not-drained");
		  } }
		int nreg = atomic_load(&notif_registered);
		{ long lastp = -1; int idle = 0;
		  for (;;) {
			int all = 1; for (int k = 0; k < nreg; k++) if (atomic_load(&notif_runs[k]) < 1) all = 0;
			if (all) break;
			usleep(1000);
			long p = atomic_load(&progress);
			if (p != lastp) { lastp = p; idle = 0; } else if (++idle > 10000) break;      // reported as UNFIRED below
		  } }
		// barrier for the RECORD: every leave's atomic add has been recorded (count of recorded adds = leaves performed) and
		// every _dispatch_group_wake has finished (its last step gives back the references it holds: the group's internal
		// reference count is back to what it was at creation), so no thread is still inside a call on this group and no
		// operation is still waiting for its callback
		{ long lastp = -1; int idle = 0, complete = 1;
		  while (atomic_load(&adds_recorded) != atomic_load(&leaves_expected) || *(volatile int *)&g->do_ref_cnt != base_refs) {
			usleep(500);
			long p = atomic_load(&adds_recorded) * 64 + *(volatile int *)&g->do_ref_cnt + (long)atomic_load(&dv_seq);
			if (p != lastp) { lastp = p; idle = 0; } else if (++idle > 20000) { complete = 0; break; }
		  }
		  if (!complete) printf("INCOMPLETE %d adds=%ld/%ld refs=%d/%d\n", i, atomic_load(&adds_recorded), atomic_load(&leaves_expected),
				*(volatile int *)&g->do_ref_cnt, base_refs);
		}
		usleep(300);
		for (int k = 0; k < nreg; k++) {
			int n = atomic_load(&notif_runs[k]);
			if (n == 0) printf("UNFIRED %d %d\n", i, k); else if (n > 1) printf("MULTI %d %d %d\n", i, k, n);
		}
		printf("Q %d %llu %d\n", i, (unsigned long long)(*(volatile uint64_t *)&g->dg_state), nreg);
		dv_user(DVU_MARK, i, 99, 0);   // events of this round after this mark (dispose) are not part of the protocol
		dispatch_release(nq);
		if ((uint32_t)(*(volatile uint64_t *)&g->dg_state) == 0) dispatch_release(g);
	}
	c07_dump(stdout);
	return 0;
}
