// C10 harness (white-box: includes the library's internal.h, links its object files, hooked build).
//   c10_apply width <seed> <permille> < cases     differential test of _dispatch_apply_redirect / relinquish_width:
//        one case per line:  <id> <n> <cpus> <nest> <onself> <nlev> <w_1..w_nlev> <b_1..b_nlev>
//        builds a fresh chain of queues lev[0] -> lev[1] -> ... -> default root queue (w = 1: serial queue, else a
//        concurrent queue narrowed with dispatch_queue_set_width), parks b_k blocked async items on level k (each
//        holds one unit of width on level k and below), sets the CPU count the library believes in, and runs
//        dispatch_apply_f(n, lev[0]) (inside an outer apply of <nest> iterations / inside a sync on lev[0] when asked).
//        Prints every level's dq_state before / during (first callout) / after, the per-index oracle verdicts, and
//        at the end the recorder dump: every atomic operation src/apply.c performed (dq_state of the levels:
//        obj 2000+level; fields of the shared apply record: obj < 2000, offset within struct dispatch_apply_s).
//   c10_apply stress <seed> <rounds> <permille> <bigrounds>   stress through the public API, see below.
// A watchdog ends the process with "HANG ..." when no apply returns for 20 s.
#include "internal.h"
#include <inttypes.h>
#include <semaphore.h>
#include "dv_record.h"

_Static_assert(offsetof(struct dispatch_apply_s, da_index) == 8, "da_index");
_Static_assert(offsetof(struct dispatch_apply_s, da_todo) == 16, "da_todo");
_Static_assert(offsetof(struct dispatch_apply_s, da_event) == 40, "da_event");
_Static_assert(offsetof(struct dispatch_apply_s, da_thr_cnt) == 48, "da_thr_cnt");
_Static_assert(sizeof(struct dispatch_apply_s) <= 64, "size");
extern void dispatch_queue_set_width(dispatch_queue_t dq, long width);

// ---------------------------------------------------------------- recorder
#define QOBJ 2000
#define MAXQ 256
#define MAXB 4096
#define REC_LIMIT 300   /* participations of applies with more iterations are not recorded (volume) */
static _Atomic int c10_rec; static int c10_permille; static __thread uintptr_t skip_base; static _Atomic int in_cb;
static _Atomic uintptr_t qtab[MAXQ]; static _Atomic int nqtab;
static _Atomic uintptr_t bases[MAXB]; static _Atomic int nbases;

static uint64_t q_state(dispatch_queue_t q) { return __atomic_load_n((uint64_t *)&q->dq_state, __ATOMIC_RELAXED); }
static int q_track(dispatch_queue_t q) { int i = atomic_fetch_add(&nqtab, 1); if (i >= MAXQ) abort(); atomic_store(&qtab[i], (uintptr_t)&q->dq_state); return i; }
static int q_lookup(uintptr_t p) { int n = atomic_load(&nqtab); for (int i = 0; i < n; i++) if (atomic_load_explicit(&qtab[i], memory_order_relaxed) == p) return i; return -1; }
static int base_lookup(uintptr_t p) {
	int n = atomic_load(&nbases); if (n > MAXB) n = MAXB;
	for (int i = 0; i < n; i++) { uintptr_t b = atomic_load_explicit(&bases[i], memory_order_relaxed); if (b && p >= b && p < b + sizeof(struct dispatch_apply_s)) return i; }
	return -1;
}
static atomic_flag base_lock = ATOMIC_FLAG_INIT;
static int base_register(uintptr_t b) {
	while (atomic_flag_test_and_set_explicit(&base_lock, memory_order_acquire)) ;
	int i = base_lookup(b);
	if (!(i >= 0 && atomic_load(&bases[i]) == b)) {
		i = atomic_load(&nbases); if (i >= MAXB) { fprintf(stderr, "c10: too many distinct apply records\n"); abort(); }   // never evict
		atomic_store(&bases[i], b); atomic_store(&nbases, i + 1);
	}
	atomic_flag_clear_explicit(&base_lock, memory_order_release);
	return i;
}
static void c10_cb(const volatile void *addr, unsigned size, int kind, int order, unsigned long long a, unsigned long long b,
		int ok, const char *file, int line) {
	atomic_fetch_add(&in_cb, 1);
	if (!atomic_load(&dv_enabled)) { atomic_fetch_sub(&in_cb, 1); return; }
	dv_thr_t *t = dv_me();
	if (atomic_load_explicit(&c10_rec, memory_order_relaxed)) {
		size_t fl = strlen(file); uintptr_t p = (uintptr_t)addr;
		if (fl >= 7 && !strcmp(file + fl - 7, "apply.c")) {
			int qi = q_lookup(p);
			if (qi >= 0) dv_push(t, kind, order, QOBJ + qi, 0, (int)size, a, b, ok, line);
			else if (skip_base && p >= skip_base && p < skip_base + sizeof(struct dispatch_apply_s)) {
				if (kind == DV_SUB && size == 4) skip_base = 0;      // the final decrement of da_thr_cnt ends the skipped run
			} else {
				int bi;
				if (kind == DV_ADD && size == 8 && order == 2) {   // entry of _dispatch_apply_invoke2: the caller of this
					uintptr_t base = p - offsetof(struct dispatch_apply_s, da_index);   // operation holds a unit of da_thr_cnt
					if (((struct dispatch_apply_s *)base)->da_iterations > REC_LIMIT) { skip_base = base; goto perturb; }
					bi = base_register(base);
					dv_push(t, DVU_MARK, 0, bi, 0, 0, ((struct dispatch_apply_s *)base)->da_iterations, 0, 1, 0);
				} else bi = base_lookup(p);
				if (bi >= 0) dv_push(t, kind, order, bi, (long)(p - atomic_load(&bases[bi])), (int)size, a, b, ok, line);
				else dv_push(t, kind, order, -1, 0, (int)size, a, b, ok, line);
			}
		} else if (fl >= 6 && (!strcmp(file + fl - 6, "lock.h") || !strcmp(file + fl - 6, "lock.c"))) {
			int bi = (skip_base && p >= skip_base && p < skip_base + sizeof(struct dispatch_apply_s)) ? -1 : base_lookup(p);
			if (bi >= 0) dv_push(t, kind, order, bi, (long)(p - atomic_load(&bases[bi])), (int)size, a, b, ok, line);
		}
	}
perturb:
	if (c10_permille) {
		uint64_t r = dv_rand(t);
		if ((int)(r % 1000) < c10_permille) { if ((r >> 20) & 3) sched_yield(); else usleep((useconds_t)((r >> 24) % 60)); }
	}
	atomic_fetch_sub(&in_cb, 1);
}

// ---------------------------------------------------------------- watchdog
static _Atomic long progress; static _Atomic int wd_stop; static char wd_what[256];
static void *watchdog(void *a) {
	(void)a; long last = -1; int stalled = 0;
	while (!atomic_load(&wd_stop)) {
		usleep(500000); long p = atomic_load(&progress);
		if (p != last) { last = p; stalled = 0; }
		else if (++stalled >= 40) { printf("HANG %s\n", wd_what); fflush(stdout); _exit(3); }
	}
	return NULL;
}
static _Atomic uint64_t stamp_ctr;
static inline uint64_t stamp(void) { return atomic_fetch_add(&stamp_ctr, 1) + 1; }
static void set_cpus(uint32_t c) { _dispatch_hw_config.logical_cpus = c; _dispatch_hw_config.physical_cpus = c; _dispatch_hw_config.active_cpus = c; }
static void nop(void *c) { (void)c; }
static void spin(uint64_t x) { volatile uint64_t s = 0; for (uint64_t i = 0; i < (x & 255); i++) s += i; }

// ---------------------------------------------------------------- width mode
#define MAXL 6
typedef struct { int id; size_t n; int cpus, nest, onself, nlev; int w[MAXL], b[MAXL]; } wcase_t;
typedef struct { wcase_t *c; dispatch_queue_t lev[MAXL]; _Atomic uint8_t *hits; _Atomic int oor, first, inorder_bad; _Atomic size_t fin, nextexp;
	uint64_t during[MAXL]; _Atomic long tids[64]; _Atomic int ntids; uint64_t retstamp; _Atomic uint64_t maxend; } wrun_t;
static sem_t blk_sem;
static void blocker(void *c) { (void)c; while (sem_wait(&blk_sem) == -1 && errno == EINTR) ; }
static void w_work(void *ctx, size_t i) {
	wrun_t *r = ctx; atomic_fetch_add_explicit(&progress, 1, memory_order_relaxed);
	if (i >= r->c->n) { atomic_fetch_add(&r->oor, 1); return; }
	dv_user(DVU_CALLOUT_BEGIN, r->c->id, i, 0);
	if (atomic_fetch_add(&r->nextexp, 1) != i) atomic_store(&r->inorder_bad, 1);
	atomic_fetch_add(&r->hits[i], 1);
	if (!atomic_exchange(&r->first, 1)) for (int k = 0; k < r->c->nlev; k++) r->during[k] = q_state(r->lev[k]);
	long me = (long)syscall(SYS_gettid); int nt = atomic_load(&r->ntids), seen = 0;
	for (int k = 0; k < nt && k < 64; k++) if (atomic_load(&r->tids[k]) == me) seen = 1;
	if (!seen) { int k = atomic_fetch_add(&r->ntids, 1); if (k < 64) atomic_store(&r->tids[k], me); }
	spin(i * 2654435761u >> 7); if ((i & 7) == 3) usleep(50);
	uint64_t e = stamp(), m = atomic_load(&r->maxend);
	while (m < e && !atomic_compare_exchange_weak(&r->maxend, &m, e)) ;
	atomic_fetch_add(&r->fin, 1);
	dv_user(DVU_CALLOUT_END, r->c->id, i, 0);
}
static void w_inner(void *ctx) {
	wrun_t *r = ctx;
	dv_user(DVU_CALL, r->c->id, r->c->n, 0);
	dispatch_apply_f(r->c->n, r->lev[0], r, w_work);
	r->retstamp = stamp();
	dv_user(DVU_RET, r->c->id, atomic_load(&r->fin), 0);
}
static void w_outer(void *ctx, size_t i) { if (i == 0) w_inner(ctx); else usleep(100); }
static int wait_states(dispatch_queue_t *lev, uint64_t *want, int n, int ms) {
	for (int it = 0; it < ms * 10; it++) { int ok = 1; for (int k = 0; k < n; k++) if (q_state(lev[k]) != want[k]) ok = 0; if (ok) return 1;
		if ((it & 1023) == 0) atomic_fetch_add(&progress, 1); usleep(100); }
	return 0;
}
static void run_width_case(wcase_t *c) {
	wrun_t r; memset(&r, 0, sizeof r); r.c = c;
	uint64_t idle[MAXL], pre[MAXL], post[MAXL], want[MAXL]; char lbl[64];
	snprintf(wd_what, sizeof wd_what, "width case %d", c->id);
	printf("C %d begin\n", c->id); fflush(stdout);
	atomic_store(&nqtab, 0);
	dispatch_queue_t tgt = (dispatch_queue_t)dispatch_get_global_queue(0, 0);
	for (int k = c->nlev - 1; k >= 0; k--) {
		snprintf(lbl, sizeof lbl, "c10.%d.%d", c->id, k);
		r.lev[k] = dispatch_queue_create_with_target(lbl, c->w[k] == 1 ? DISPATCH_QUEUE_SERIAL : DISPATCH_QUEUE_CONCURRENT, tgt);
		if (c->w[k] > 1) { dispatch_queue_set_width(r.lev[k], c->w[k]); dispatch_barrier_sync_f(r.lev[k], NULL, nop); }
		tgt = r.lev[k];
	}
	for (int k = 0; k < c->nlev; k++) { q_track(r.lev[k]); idle[k] = q_state(r.lev[k]); }
	printf("C %d widths", c->id); for (int k = 0; k < c->nlev; k++) printf(" %u", (unsigned)r.lev[k]->dq_width); printf("\n");
	dispatch_group_t g = dispatch_group_create(); int nb = 0, cum = 0;
	for (int k = 0; k < c->nlev; k++) { for (int j = 0; j < c->b[k]; j++) { dispatch_group_async_f(g, r.lev[k], NULL, blocker); nb++; }
		cum += c->b[k]; want[k] = idle[k] + (uint64_t)cum * DISPATCH_QUEUE_WIDTH_INTERVAL; }
	int bok = wait_states(r.lev, want, c->nlev, 30000);
	for (int k = 0; k < c->nlev; k++) pre[k] = q_state(r.lev[k]);
	printf("C %d pre", c->id); for (int k = 0; k < c->nlev; k++) printf(" %" PRIu64, pre[k]); printf(" blockers_ok=%d\n", bok);
	if (bok) {
		r.hits = calloc(c->n ? c->n : 1, 1);
		set_cpus((uint32_t)c->cpus);
		atomic_store(&c10_rec, 1);
		if (c->nest > 0) dispatch_apply_f((size_t)c->nest, (dispatch_queue_t)dispatch_get_global_queue(0, 0), &r, w_outer);
		else if (c->onself) dispatch_sync_f(r.lev[0], &r, w_inner);
		else w_inner(&r);
		atomic_store(&c10_rec, 0);
		for (int k = 0; k < c->nlev; k++) post[k] = q_state(r.lev[k]);
		atomic_fetch_add(&progress, 1);
		size_t bad = 0, dup = 0, miss = 0;
		for (size_t i = 0; i < c->n; i++) { int h = atomic_load(&r.hits[i]); if (h != 1) bad++; if (h > 1) dup++; if (!h) miss++; }
		printf("C %d during", c->id); for (int k = 0; k < c->nlev; k++) printf(" %" PRIu64, r.during[k]); printf("\n");
		printf("C %d post", c->id); for (int k = 0; k < c->nlev; k++) printf(" %" PRIu64, post[k]); printf("\n");
		printf("C %d oracle n=%zu fin=%zu dup=%zu miss=%zu oor=%d inorder=%d threads=%d late=%d\n", c->id, c->n, atomic_load(&r.fin), dup, miss,
				atomic_load(&r.oor), !atomic_load(&r.inorder_bad), atomic_load(&r.ntids), atomic_load(&r.maxend) > r.retstamp);
		free((void *)r.hits);
	}
	for (int j = 0; j < nb; j++) sem_post(&blk_sem);
	dispatch_group_wait(g, DISPATCH_TIME_FOREVER); dispatch_release(g);
	int balanced = 1; if (bok) for (int k = 0; k < c->nlev; k++) if (post[k] != pre[k]) balanced = 0;
	int iok = balanced ? wait_states(r.lev, idle, c->nlev, 30000) : 0;
	printf("C %d end idle_ok=%d\n", c->id, iok); fflush(stdout);
	// a chain whose accounting is off is leaked, never touched again (disposing of it could trap)
	if (iok) for (int k = 0; k < c->nlev; k++) dispatch_release(r.lev[k]);
}
static int width_main(void) {
	char line[512]; sem_init(&blk_sem, 0, 0);
	uint32_t cpus0 = _dispatch_hw_config.active_cpus;
	printf("H cpus=%u interval=%" PRIu64 "\n", cpus0, (uint64_t)DISPATCH_QUEUE_WIDTH_INTERVAL);
	while (fgets(line, sizeof line, stdin)) {
		wcase_t c; memset(&c, 0, sizeof c); char *p = line; int pos = 0; unsigned long long n;
		if (sscanf(p, "%d %llu %d %d %d %d%n", &c.id, &n, &c.cpus, &c.nest, &c.onself, &c.nlev, &pos) < 6 || c.nlev < 1 || c.nlev > MAXL) continue;
		c.n = (size_t)n; p += pos;
		for (int k = 0; k < c.nlev; k++) { sscanf(p, "%d%n", &c.w[k], &pos); p += pos; }
		for (int k = 0; k < c.nlev; k++) { sscanf(p, "%d%n", &c.b[k], &pos); p += pos; }
		run_width_case(&c);
		set_cpus(cpus0);
	}
	return 0;
}

// ---------------------------------------------------------------- stress mode
// Two driver threads run rounds; a round = one dispatch_apply_f(n, queue) whose work function may start nested applies
// (depth <= 3) on queues of the next depth's zoo.  Every apply instance has per-index hit counters and (n <= 4096)
// begin/end stamps; the caller takes a return stamp.  Barrier items are thrown at the concurrent custom queues while
// applies run on them (non-barrier behaviour: no callout may overlap a barrier item of the same queue).
enum { K_AUTO, K_GLOBAL, K_GLOBAL_HI, K_GLOBAL_BG, K_SERIAL, K_CONC, K_CONC_NARROW, K_CHAIN_CC, K_CHAIN_CS, K_CHAIN_CCC, K_CHAIN_SC, NKIND };
static const char *kname[] = {"auto", "global", "global-high", "global-bg", "serial", "concurrent", "concurrent-w3", "chain-c-c5", "chain-c-serial",
	"chain-c3-c2-c4", "chain-serial-c"};
#define MAXDEPTH 3
static dispatch_queue_t zoo[MAXDEPTH][NKIND]; static int zoo_conc[NKIND] = {0, 0, 0, 0, 0, 1, 1, 1, 0, 1, 0}, zoo_serial[NKIND] = {0, 0, 0, 0, 1, 0, 0, 0, 1, 0, 1};
static dispatch_queue_t mkq(const char *l, int w, dispatch_queue_t tgt) {
	dispatch_queue_t q = dispatch_queue_create_with_target(l, w == 1 ? DISPATCH_QUEUE_SERIAL : DISPATCH_QUEUE_CONCURRENT, tgt);
	if (w > 1) { dispatch_queue_set_width(q, w); dispatch_barrier_sync_f(q, NULL, nop); }
	q_track(q); return q;
}
static void make_zoo(void) {
	for (int d = 0; d < MAXDEPTH; d++) {
		zoo[d][K_AUTO] = DISPATCH_APPLY_AUTO;
		zoo[d][K_GLOBAL] = (dispatch_queue_t)dispatch_get_global_queue(DISPATCH_QUEUE_PRIORITY_DEFAULT, 0);
		zoo[d][K_GLOBAL_HI] = (dispatch_queue_t)dispatch_get_global_queue(DISPATCH_QUEUE_PRIORITY_HIGH, 0);
		zoo[d][K_GLOBAL_BG] = (dispatch_queue_t)dispatch_get_global_queue(DISPATCH_QUEUE_PRIORITY_BACKGROUND, 0);
		zoo[d][K_SERIAL] = mkq("z.serial", 1, NULL);
		zoo[d][K_CONC] = mkq("z.conc", 0, NULL);
		zoo[d][K_CONC_NARROW] = mkq("z.conc3", 3, NULL);
		zoo[d][K_CHAIN_CC] = mkq("z.cc.top", 0, mkq("z.cc.bot", 5, NULL));
		zoo[d][K_CHAIN_CS] = mkq("z.cs.top", 0, mkq("z.cs.bot", 1, NULL));
		zoo[d][K_CHAIN_CCC] = mkq("z.ccc.top", 3, mkq("z.ccc.mid", 2, mkq("z.ccc.bot", 4, NULL)));
		zoo[d][K_CHAIN_SC] = mkq("z.sc.top", 1, mkq("z.sc.bot", 0, NULL));
	}
}
typedef struct inst {
	struct inst *next; int aid, kind, depth; size_t n; uint64_t rng;
	_Atomic uint8_t *hits; uint64_t *beg, *end; _Atomic int oor; _Atomic size_t fin, started; _Atomic uint64_t maxend;
	uint64_t callstamp, retstamp; _Atomic int nested_left; int rec;
} inst_t;
static inst_t *_Atomic all_inst; static _Atomic int next_aid; static _Atomic long nfail;
typedef struct bar { struct bar *next; int kind; uint64_t b, e; } bar_t; static bar_t *_Atomic all_bars;
static __thread int cur_depth;
static const size_t small_n[] = {0, 1, 2, 3, 5, 15, 16, 17, 40};
static void run_apply(int depth, int kind, size_t n, uint64_t rng);
static void s_work(void *ctx, size_t i) {
	inst_t *I = ctx; uint64_t b = stamp(); atomic_fetch_add_explicit(&progress, 1, memory_order_relaxed);
	if (I->rec) dv_user(DVU_CALLOUT_BEGIN, I->aid, i, 0);
	if (i >= I->n) { atomic_fetch_add(&I->oor, 1); if (I->rec) dv_user(DVU_CALLOUT_END, I->aid, i, 0); return; }
	atomic_fetch_add(&I->started, 1);
	atomic_fetch_add(&I->hits[i], 1);
	uint64_t x = (I->rng ^ (i * 0x9E3779B97F4A7C15ull)); x ^= x >> 29; x *= 0xBF58476D1CE4E5B9ull; x ^= x >> 32;
	if (I->n <= 4096) { spin(x); if ((x & 63) == 1) usleep((useconds_t)((x >> 8) % 120)); else if ((x & 15) == 2) sched_yield(); }
	if (I->depth + 1 < MAXDEPTH && (x >> 20) % 4 == 0 && atomic_fetch_sub(&I->nested_left, 1) > 0) {
		int save = cur_depth; cur_depth = I->depth + 1;
		run_apply(I->depth + 1, (int)((x >> 24) % NKIND), small_n[(x >> 32) % (sizeof small_n / sizeof *small_n)], x);
		cur_depth = save;
	}
	uint64_t e = stamp(), m = atomic_load(&I->maxend);
	if (I->beg) { I->beg[i] = b; I->end[i] = e; }
	while (m < e && !atomic_compare_exchange_weak(&I->maxend, &m, e)) ;
	atomic_fetch_add(&I->fin, 1);
	if (I->rec) dv_user(DVU_CALLOUT_END, I->aid, i, 0);
}
static void fail(inst_t *I, const char *what, long long x, long long y) {
	atomic_fetch_add(&nfail, 1);
	printf("F %d %s n=%zu queue=%s depth=%d x=%lld y=%lld\n", I->aid, what, I->n, kname[I->kind], I->depth, x, y); fflush(stdout);
}
static void run_apply(int depth, int kind, size_t n, uint64_t rng) {
	inst_t *I = calloc(1, sizeof *I); int rec = n <= REC_LIMIT;
	I->aid = atomic_fetch_add(&next_aid, 1); I->kind = kind; I->depth = depth; I->n = n; I->rng = rng; I->rec = rec;
	I->hits = calloc(n ? n : 1, 1); atomic_store(&I->nested_left, depth == 0 ? 3 : 1);
	if (n <= 4096) { I->beg = calloc(n ? n : 1, 8); I->end = calloc(n ? n : 1, 8); }
	if (depth == 0) snprintf(wd_what, sizeof wd_what, "stress apply aid=%d n=%zu queue=%s", I->aid, n, kname[kind]);
	if (rec) dv_user(DVU_CALL, I->aid, n, (unsigned long long)kind);
	I->callstamp = stamp();
	dispatch_apply_f(n, zoo[depth][kind], I, s_work);
	I->retstamp = stamp();
	if (rec) dv_user(DVU_RET, I->aid, n, 0);
	atomic_fetch_add(&progress, 1);
	// API-level oracle
	size_t fin = atomic_load(&I->fin), started = atomic_load(&I->started);
	if (atomic_load(&I->oor)) fail(I, "index-out-of-range", atomic_load(&I->oor), 0);
	if (fin != n || started != n) fail(I, "returned-before-all-finished", (long long)fin, (long long)started);
	if (atomic_load(&I->maxend) > I->retstamp) fail(I, "callout-ended-after-return", (long long)atomic_load(&I->maxend), (long long)I->retstamp);
	for (size_t i = 0; i < n; i++) { int h = atomic_load(&I->hits[i]); if (h != 1) { fail(I, h ? "index-invoked-twice" : "index-not-invoked", (long long)i, h); break; } }
	if (I->beg && zoo_serial[kind]) for (size_t i = 0; i < n; i++) {
		if (I->beg[i] < I->callstamp || (i && I->beg[i] < I->end[i - 1])) { fail(I, "serial-queue-not-in-index-order", (long long)i, (long long)I->beg[i]); break; } }
	inst_t *h = atomic_load(&all_inst); do { I->next = h; } while (!atomic_compare_exchange_weak(&all_inst, &h, I));
}
static void s_barrier(void *ctx) { bar_t *B = ctx; B->b = stamp(); spin(200); usleep(30); B->e = stamp();
	bar_t *h = atomic_load(&all_bars); do { B->next = h; } while (!atomic_compare_exchange_weak(&all_bars, &h, B)); }
typedef struct { uint64_t seed; int rounds, id, big; } drv_t;
static dispatch_group_t bar_group; static uint32_t cpus0; static _Atomic int drivers_done;
static uint64_t sm(uint64_t *s) { uint64_t z = (*s += 0x9E3779B97F4A7C15ull); z = (z ^ (z >> 30)) * 0xBF58476D1CE4E5B9ull; z = (z ^ (z >> 27)) * 0x94D049BB133111EBull; return z ^ (z >> 31); }
static void *driver(void *a) {
	drv_t *d = a; uint64_t s = d->seed;
	size_t ns[] = {0, 1, 2, cpus0 - 1, cpus0, cpus0 + 1, 1000, 3, 64, 257};
	for (int r = 0; r < d->rounds; r++) {
		uint64_t x = sm(&s); int kind = (int)(x % NKIND); size_t n = ns[(x >> 8) % (sizeof ns / sizeof *ns)];
		if (r < d->big) { n = (r & 1) ? 100000 : 1000; kind = (int)((x >> 40) % NKIND); }
		if (zoo_serial[kind] && n > 1000) n = 1000;
		if (d->id == 0 && ((x >> 16) & 3) == 0) set_cpus((uint32_t[]){2, 3, 5, 24}[(x >> 20) & 3]); else if (d->id == 0) set_cpus(cpus0);
		run_apply(0, kind, n, x);
	}
	atomic_fetch_add(&drivers_done, 1);
	return NULL;
}
static void s_barrier_wrap(void *ctx) { s_barrier(ctx); dispatch_group_leave(bar_group); }
static void *barrier_thrower2(void *a) {
	uint64_t s = *(uint64_t *)a;
	while (atomic_load(&drivers_done) < 2) {
		uint64_t x = sm(&s); int kind = (int)(x % NKIND);
		if (zoo_conc[kind]) { bar_t *B = calloc(1, sizeof *B); B->kind = kind; dispatch_group_enter(bar_group);
			dispatch_barrier_async_f(zoo[0][kind], B, s_barrier_wrap); }
		usleep((useconds_t)(200 + (x >> 12) % 1500));
	}
	return NULL;
}
static int stress_main(uint64_t seed, int rounds, int big) {
	cpus0 = _dispatch_hw_config.active_cpus; make_zoo(); bar_group = dispatch_group_create();
	printf("H cpus=%u\n", cpus0);
	atomic_store(&c10_rec, 1);
	pthread_t th[3]; drv_t d[2] = {{seed * 2 + 1, rounds, 0, big}, {seed * 2 + 2, rounds, 1, big}}; uint64_t bs = seed ^ 0xabcdef;
	for (int i = 0; i < 2; i++) pthread_create(&th[i], NULL, driver, &d[i]);
	pthread_create(&th[2], NULL, barrier_thrower2, &bs);
	for (int i = 0; i < 3; i++) pthread_join(th[i], NULL);
	dispatch_group_wait(bar_group, DISPATCH_TIME_FOREVER);
	set_cpus(cpus0);
	// non-barrier behaviour: no callout of a depth-0 apply on a concurrent custom queue overlaps a barrier item of that queue
	long nb = 0, checked = 0;
	for (bar_t *B = atomic_load(&all_bars); B; B = B->next) { nb++;
		for (inst_t *I = atomic_load(&all_inst); I; I = I->next) if (I->depth == 0 && I->kind == B->kind && I->beg)
			for (size_t i = 0; i < I->n; i++) { checked++; if (I->beg[i] < B->e && B->b < I->end[i]) { fail(I, "callout-overlaps-barrier-item", (long long)i, (long long)B->b); break; } } }
	// width accounting of every custom queue is back to idle
	usleep(20000);
	long ninst = 0; long kinds[NKIND] = {0}, bign = 0, nested = 0;
	for (inst_t *I = atomic_load(&all_inst); I; I = I->next) { ninst++; kinds[I->kind]++; if (I->n >= 100000) bign++; if (I->depth) nested++; }
	printf("S instances=%ld nested=%ld big=%ld barriers=%ld overlap_checks=%ld failures=%ld\n", ninst, nested, bign, nb, checked, atomic_load(&nfail));
	printf("K"); for (int k = 0; k < NKIND; k++) printf(" %s=%ld", kname[k], kinds[k]); printf("\n");
	for (inst_t *I = atomic_load(&all_inst); I; I = I->next) printf("A %d %zu %d %d\n", I->aid, I->n, I->kind, I->depth);
	return 0;
}

int main(int argc, char **argv) {
	if (argc < 2) return 2;
	uint64_t seed = argc > 2 ? strtoull(argv[2], 0, 10) : 1;
	pthread_t wd; pthread_create(&wd, NULL, watchdog, NULL);
	dispatch_sync_f((dispatch_queue_t)dispatch_get_global_queue(0, 0), NULL, nop);   // library initialised (hw config)
	int rc;
	if (!strcmp(argv[1], "width")) {
		c10_permille = argc > 3 ? atoi(argv[3]) : 0;
		dv_install(seed, 0); _dispatch_verif_cb = c10_cb;
		rc = width_main();
	} else {
		int rounds = argc > 3 ? atoi(argv[3]) : 40; c10_permille = argc > 4 ? atoi(argv[4]) : 0; int big = argc > 5 ? atoi(argv[5]) : 2;
		dv_install(seed, 0); _dispatch_verif_cb = c10_cb;
		rc = stress_main(seed, rounds, big);
	}
	atomic_store(&c10_rec, 0); c10_permille = 0;
	usleep(100000);   // late helpers leave _dispatch_apply_invoke2 (those that have not are reported as truncated runs)
	atomic_store(&wd_stop, 1); pthread_join(wd, NULL);
	atomic_store(&dv_enabled, 0);
	while (atomic_load(&in_cb) > 0) usleep(100);     // nobody is inside the recorder any more: the buffers are stable
	dv_dump(stdout);
	printf("END %d\n", rc); fflush(stdout);          // the output is complete
	return rc;
}
