// scratch probe: observe the atomic events of main-queue operations
#include "internal.h"
#include <poll.h>
#include <sys/eventfd.h>
#include "dv_record.h"

static _Atomic int done_items;
static void item_fn(void *ctx) {
	dv_user(DVU_CALLOUT_BEGIN, 1, (unsigned long long)(uintptr_t)ctx, 0);
	atomic_fetch_add(&done_items, 1);
	dv_user(DVU_CALLOUT_END, 1, (unsigned long long)(uintptr_t)ctx, 0);
}
static void track_my_stack(long me) {
	pthread_attr_t a; void *lo; size_t sz;
	pthread_getattr_np(pthread_self(), &a); pthread_attr_getstack(&a, &lo, &sz); pthread_attr_destroy(&a);
	dv_track(lo, sz, (int)me);
}
static void *pusher(void *arg) {
	long k = (long)arg; long me = (long)syscall(SYS_gettid);
	static pthread_mutex_t mu = PTHREAD_MUTEX_INITIALIZER;
	pthread_mutex_lock(&mu); track_my_stack(me); printf("T %ld %ld\n", k, me); pthread_mutex_unlock(&mu);
	for (int i = 0; i < 3; i++) {
		dv_user(DVU_CALL, 4, (unsigned long long)(k * 100 + i), 0);
		dispatch_async_f(dispatch_get_main_queue(), (void *)(k * 100 + i), item_fn);
		dv_user(DVU_RET, 4, (unsigned long long)(k * 100 + i), 0);
	}
	dv_user(DVU_CALL, 1, (unsigned long long)(k * 100 + 50), 0);
	dispatch_sync_f(dispatch_get_main_queue(), (void *)(k * 100 + 50), item_fn);
	dv_user(DVU_RET, 1, (unsigned long long)(k * 100 + 50), 0);
	dv_user(DVU_CALL, 3, (unsigned long long)(k * 100 + 51), 0);
	dispatch_async_and_wait_f(dispatch_get_main_queue(), (void *)(k * 100 + 51), item_fn);
	dv_user(DVU_RET, 3, (unsigned long long)(k * 100 + 51), 0);
	return NULL;
}
static void last_fn(void *ctx) { (void)ctx; atomic_store(&dv_enabled, 0); dv_dump(stdout); fflush(stdout); _exit(0); }
int main(int argc, char **argv) {
	int phase2 = argc > 1 ? atoi(argv[1]) : 0;
	struct dispatch_queue_static_s *mq = &_dispatch_main_q;
	printf("Q state=%llu flags=%u off_state=%zu off_tail=%zu off_head=%zu off_flags=%zu off_ctxt=%zu size=%zu\n",
		(unsigned long long)mq->dq_state, (unsigned)mq->dq_atomic_flags, offsetof(struct dispatch_queue_static_s, dq_state),
		offsetof(struct dispatch_queue_static_s, dq_items_tail), offsetof(struct dispatch_queue_static_s, dq_items_head),
		offsetof(struct dispatch_queue_static_s, dq_atomic_flags), offsetof(struct dispatch_queue_static_s, do_ctxt), sizeof *mq);
	dv_track(mq, sizeof *mq, 1);
	dv_install(1, 0);
	int fd = _dispatch_get_main_queue_handle_4CF();
	printf("M %ld fd=%d state=%llu\n", (long)syscall(SYS_gettid), fd, (unsigned long long)mq->dq_state);
	pthread_t th[2];
	for (long k = 0; k < 2; k++) pthread_create(&th[k], NULL, pusher, (void *)(k + 1));
	int total = 10;
	while (atomic_load(&done_items) < total) {
		struct pollfd p = { .fd = fd, .events = POLLIN };
		int r = poll(&p, 1, 1000);
		if (r > 0) { eventfd_t v; eventfd_read(fd, &v); dv_user(DVU_MARK, 1, v, 0); _dispatch_main_queue_callback_4CF(NULL); dv_user(DVU_MARK, 2, 0, 0); }
	}
	for (int k = 0; k < 2; k++) pthread_join(th[k], NULL);
	if (!phase2) { atomic_store(&dv_enabled, 0); dv_dump(stdout); return 0; }
	dispatch_async_f(dispatch_get_main_queue(), NULL, item_fn);
	dispatch_async_f(dispatch_get_main_queue(), NULL, last_fn);
	dv_user(DVU_MARK, 3, 0, 0);
	dispatch_main();
}
