// C06 protocol conformance recorder (white-box: includes the library's internal header for the layout of
// struct dispatch_lane_s and the dq_state constants; the scenario itself uses the public API only).
//
// Each round creates ONE serial queue (active, or initially inactive), tracks the queue object with dv_track and runs,
// concurrently and with schedule perturbation inside the library's atomic operations:
//   submitters   flood it with dispatch_async_f,
//   controllers  call dispatch_suspend / dispatch_resume in balanced random patterns (nesting 1..4; in some rounds one
//                controller nests 60..100 deep so that the inline counter spills into dq_side_suspend_cnt),
//   items        some work items call dispatch_suspend on their own queue and hand the matching dispatch_resume to a
//                helper thread (an item cannot wait for it: the queue is serial),
//   activators   (inactive rounds) one or two threads call dispatch_activate at a random moment.
// At the end every owed dispatch_resume is issued, the activation is made sure of, and the round waits until every
// submitted item has run (watchdog, progress-based: given up when no item has started for 20 s).
//
// usage: c06_slanes <seed> <rounds> <perturb_permille> [scale]
// output:
//   O <sizeof lane> <off dq_state> <off dq_items_tail> <off dq_items_head> <off dq_sidelock> <off dq_side_suspend_cnt>
//     <ENQUEUED> <DIRTY> <SUSPEND_INTERVAL> <HAS_SIDE> <INACTIVE> <NEEDS_ACTIVATION> <ROLE_BASE_ANON> <ROLE_MASK>
//   R <round> <lane address> <inactive> <nsub> <nctl> <nitems> <wakeup qos> <initial dq_state> <final dq_state>
//     <seq at begin> <seq at end> <ran> <all ran ok> <suspends> <resumes> <activates> <deep> <final side count> <role after activation>
//     <wakeup qos after the round>
//   B <round> <lane address> <inactive> <initial dq_state> <seq at begin>      (printed when the round begins)
//   K <signal> <round>                                                           (the library crashed: DISPATCH_CLIENT_CRASH
//                                                                                 or a fault; what was recorded follows)
//   E ... (dv_record.h format; obj = round for the lane)
// harness-level events (dv_user, obj = round):
//   DVU_CALL a = api + 256 * wakeup qos, b = call id      DVU_RET a = api, b = call id      (api: 1 async 2 suspend 3 resume 4 activate)
//   DVU_CALLOUT_BEGIN / DVU_CALLOUT_END a = ticket of the item
#include "internal.h"
#include <inttypes.h>
#include "dv_record.h"

enum { API_ASYNC = 1, API_SUSPEND = 2, API_RESUME = 3, API_ACTIVATE = 4 };
#define MAXS 4
#define MAXC 3
#define MAXITEMS 8192

typedef struct { int round, ticket, susp; } item_t;
static item_t items[MAXITEMS];
static _Atomic int next_ticket, ran, next_call, owed, n_susp, n_res, n_act, stop_helper;
static int cur_round, cur_wq;
static uint64_t round_rng;
static dispatch_queue_t cur_q;
static pthread_barrier_t bar;

#include <signal.h>
#include <time.h>
static void on_crash(int sig) {
	// a client crash of the library (e.g. "Over-resume of an object"): keep the recording, it shows how the word got there
	atomic_store(&dv_enabled, 0);
	printf("K %d %d\n", sig, cur_round);
	dv_dump(stdout);
	fflush(stdout);
	_exit(66);
}

static inline uint64_t lcg(uint64_t *r) { *r = *r * 6364136223846793005ull + 1442695040888963407ull; return *r >> 33; }

static void api_suspend(void) {
	int id = atomic_fetch_add(&next_call, 1);
	dv_user(DVU_CALL, cur_round, API_SUSPEND, (unsigned long long)id);
	dispatch_suspend(cur_q);
	dv_user(DVU_RET, cur_round, API_SUSPEND, (unsigned long long)id);
	atomic_fetch_add(&n_susp, 1);
}
static void api_resume(void) {
	int id = atomic_fetch_add(&next_call, 1);
	dv_user(DVU_CALL, cur_round, API_RESUME, (unsigned long long)id);
	dispatch_resume(cur_q);
	dv_user(DVU_RET, cur_round, API_RESUME, (unsigned long long)id);
	atomic_fetch_add(&n_res, 1);
}
static void api_activate(void) {
	int id = atomic_fetch_add(&next_call, 1);
	dv_user(DVU_CALL, cur_round, API_ACTIVATE, (unsigned long long)id);
	dispatch_activate(cur_q);
	dv_user(DVU_RET, cur_round, API_ACTIVATE, (unsigned long long)id);
	atomic_fetch_add(&n_act, 1);
}

static void work(void *ctx) {
	item_t *it = (item_t *)ctx;
	dv_user(DVU_CALLOUT_BEGIN, it->round, (unsigned long long)it->ticket, 0);
	uint64_t x = ((uint64_t)it->ticket + 1) * 0x9E3779B97F4A7C15ull ^ round_rng;
	x ^= x >> 29;
	if (x % 7 == 0) usleep((useconds_t)(x % 120)); else if (x % 3 == 0) sched_yield();
	if (it->susp) {
		// suspend the queue this item runs on; the matching resume is owed to the helper thread
		api_suspend();
		atomic_fetch_add(&owed, 1);
		if (x % 5 == 0) usleep((useconds_t)(x % 60));
	}
	atomic_fetch_add(&ran, 1);
	dv_user(DVU_CALLOUT_END, it->round, (unsigned long long)it->ticket, 0);
}

typedef struct { int thr, n, deep; uint64_t rng; } targ_t;

static void *submitter(void *a) {
	targ_t *t = (targ_t *)a; uint64_t r = t->rng;
	pthread_barrier_wait(&bar);
	for (int i = 0; i < t->n; i++) {
		unsigned mode = (unsigned)lcg(&r) % 16;
		if (mode < 2) { int spins = 0; while (atomic_load(&ran) < atomic_load(&next_ticket) && spins++ < 300) sched_yield(); }
		else if (mode < 6) usleep((useconds_t)(lcg(&r) % 60));
		int k = atomic_fetch_add(&next_ticket, 1);
		if (k >= MAXITEMS) break;
		item_t *it = &items[k]; it->round = cur_round; it->ticket = k; it->susp = (lcg(&r) % 9 == 0);
		int id = atomic_fetch_add(&next_call, 1);
		// the wakeup qos derives from dq_priority, which the activation of an inactive queue changes: read it per call
		dispatch_lane_t dl = upcast(cur_q)._dl;
		int wq = (int)_dispatch_queue_wakeup_qos(dl, _dispatch_queue_push_qos(dl, DISPATCH_QOS_UNSPECIFIED));
		dv_user(DVU_CALL, cur_round, (unsigned long long)API_ASYNC | ((unsigned long long)wq << 8), (unsigned long long)id);
		dispatch_async_f(cur_q, it, work);
		dv_user(DVU_RET, cur_round, API_ASYNC, (unsigned long long)id);
	}
	return NULL;
}

static void *controller(void *a) {
	targ_t *t = (targ_t *)a; uint64_t r = t->rng;
	pthread_barrier_wait(&bar);
	if (t->deep) {
		// nest past the 6-bit inline counter (63) so that _dispatch_lane_suspend_slow / _resume_slow run, concurrently with
		// the other controllers and the drainers
		int d = t->deep;
		for (int i = 0; i < d; i++) { api_suspend(); if (lcg(&r) % 16 == 0) sched_yield(); }
		usleep((useconds_t)(lcg(&r) % 300));
		for (int i = 0; i < d; i++) { api_resume(); if (lcg(&r) % 16 == 0) sched_yield(); }
	}
	for (int i = 0; i < t->n; i++) {
		int depth = 1 + (int)(lcg(&r) % 4);
		usleep((useconds_t)(lcg(&r) % 150));
		for (int k = 0; k < depth; k++) { api_suspend(); if (lcg(&r) % 3 == 0) usleep((useconds_t)(lcg(&r) % 80)); }
		usleep((useconds_t)(lcg(&r) % 250));
		for (int k = 0; k < depth; k++) { api_resume(); if (lcg(&r) % 3 == 0) usleep((useconds_t)(lcg(&r) % 80)); }
	}
	return NULL;
}

static void *helper(void *a) {
	uint64_t r = ((targ_t *)a)->rng;
	for (;;) {
		int o = atomic_load(&owed);
		if (o > 0) {
			if (atomic_compare_exchange_strong(&owed, &o, o - 1)) { usleep((useconds_t)(lcg(&r) % 200)); api_resume(); }
			continue;
		}
		if (atomic_load(&stop_helper)) break;
		usleep(30);
	}
	return NULL;
}

static void *activator(void *a) {
	uint64_t r = ((targ_t *)a)->rng;
	pthread_barrier_wait(&bar);
	usleep((useconds_t)(lcg(&r) % 700));
	api_activate();
	return NULL;
}

int main(int argc, char **argv) {
	uint64_t seed = argc > 1 ? strtoull(argv[1], 0, 10) : 1; int rounds = argc > 2 ? atoi(argv[2]) : 12;
	int permille = argc > 3 ? atoi(argv[3]) : 150; int scale = argc > 4 ? atoi(argv[4]) : 1;
	if (scale < 1) scale = 1;
	printf("O %zu %zu %zu %zu %zu %zu %llu %llu %llu %llu %llu %llu %llu %llu\n", sizeof(struct dispatch_lane_s),
			offsetof(struct dispatch_lane_s, dq_state), offsetof(struct dispatch_lane_s, dq_items_tail),
			offsetof(struct dispatch_lane_s, dq_items_head), offsetof(struct dispatch_lane_s, dq_sidelock),
			offsetof(struct dispatch_lane_s, dq_side_suspend_cnt),
			(unsigned long long)DISPATCH_QUEUE_ENQUEUED, (unsigned long long)DISPATCH_QUEUE_DIRTY,
			(unsigned long long)DISPATCH_QUEUE_SUSPEND_INTERVAL, (unsigned long long)DISPATCH_QUEUE_HAS_SIDE_SUSPEND_CNT,
			(unsigned long long)DISPATCH_QUEUE_INACTIVE, (unsigned long long)DISPATCH_QUEUE_NEEDS_ACTIVATION,
			(unsigned long long)DISPATCH_QUEUE_ROLE_BASE_ANON, (unsigned long long)DISPATCH_QUEUE_ROLE_MASK);
	dv_install(seed, permille);
	signal(SIGILL, on_crash); signal(SIGABRT, on_crash); signal(SIGSEGV, on_crash); signal(SIGBUS, on_crash); signal(SIGTRAP, on_crash);
	uint64_t r = seed * 6364136223846793005ull + 1442695040888963407ull;
	int nranges = 0;
	for (int i = 0; i < rounds; i++) {
		lcg(&r);
		int nsub = 1 + (int)((r >> 33) % MAXS), nctl = 1 + (int)((r >> 37) % MAXC);
		int inactive = ((r >> 41) % 3 == 0), nact = inactive ? 1 + (int)((r >> 43) % 2) : ((r >> 43) % 5 == 0 ? 1 : 0);
		int deep = ((r >> 45) % 3 == 0) ? (int[]){ 62, 64, 66, 70, 96, 100 }[(r >> 47) % 6] : 0;
		// every run of at least three rounds reaches the side-counter path and the activation of an inactive queue
		if (i == 1 && !deep) deep = 64 + (int)((r >> 47) % 8);
		if (i == 2 && !inactive) { inactive = 1; nact = 1 + (int)((r >> 43) % 2); }
		char lbl[32]; snprintf(lbl, sizeof lbl, "c06s%d", i);
		dispatch_queue_attr_t at = DISPATCH_QUEUE_SERIAL;
		if (inactive) at = dispatch_queue_attr_make_initially_inactive(at);
		dispatch_queue_t q = dispatch_queue_create(lbl, at);
		dispatch_lane_t dl = upcast(q)._dl;
		cur_q = q; cur_round = i; round_rng = r;
		cur_wq = (int)_dispatch_queue_wakeup_qos(dl, _dispatch_queue_push_qos(dl, DISPATCH_QOS_UNSPECIFIED));
		atomic_store(&next_ticket, 0); atomic_store(&ran, 0); atomic_store(&next_call, 0); atomic_store(&owed, 0);
		atomic_store(&n_susp, 0); atomic_store(&n_res, 0); atomic_store(&n_act, 0); atomic_store(&stop_helper, 0);
		uint64_t st0 = *(volatile uint64_t *)&dl->dq_state;
		if (nranges == 60) { dv_untrack_all(); nranges = 0; }
		dv_track(dl, sizeof(struct dispatch_lane_s), i); nranges++;
		unsigned long long seq0 = atomic_load(&dv_seq);
		printf("B %d %" PRIuPTR " %d %" PRIu64 " %llu\n", i, (uintptr_t)dl, inactive, st0, seq0); fflush(stdout);
		pthread_t ths[MAXS], thc[MAXC], tha[2], thh; targ_t ts[MAXS], tc[MAXC], ta[2], th;
		pthread_barrier_init(&bar, NULL, (unsigned)(nsub + nctl + nact));
		th.rng = r ^ 0x1234567ull; pthread_create(&thh, NULL, helper, &th);
		for (int k = 0; k < nsub; k++) {
			ts[k].thr = k; ts[k].n = (10 + (int)((r >> (k * 3 + 5)) % 30)) * scale; ts[k].rng = r ^ ((uint64_t)(k + 1) * 0x9E3779B97F4A7C15ull);
			pthread_create(&ths[k], NULL, submitter, &ts[k]);
		}
		for (int k = 0; k < nctl; k++) {
			tc[k].thr = k; tc[k].n = (2 + (int)((r >> (k * 4 + 9)) % 6)) * scale; tc[k].deep = (k == 0) ? deep : 0;
			tc[k].rng = r ^ ((uint64_t)(k + 11) * 0xBF58476D1CE4E5B9ull);
			pthread_create(&thc[k], NULL, controller, &tc[k]);
		}
		for (int k = 0; k < nact; k++) { ta[k].rng = r ^ ((uint64_t)(k + 21) * 0x94D049BB133111EBull); pthread_create(&tha[k], NULL, activator, &ta[k]); }
		for (int k = 0; k < nsub; k++) pthread_join(ths[k], NULL);
		for (int k = 0; k < nctl; k++) pthread_join(thc[k], NULL);
		for (int k = 0; k < nact; k++) pthread_join(tha[k], NULL);
		pthread_barrier_destroy(&bar);
		int total = atomic_load(&next_ticket); if (total > MAXITEMS) total = MAXITEMS;
		// every suspension taken by an item is resumed by the helper; new ones appear as long as items run
		// progress-based watchdog: the round is given up only when NO item has started for 20 s of monotonic time (whatever the
		// machine load, a runnable queue with a free root-queue worker starts an item in far less)
		int ok = 0, last_ran = -1; struct timespec tp; clock_gettime(CLOCK_MONOTONIC, &tp);
		double last_progress = (double)tp.tv_sec + 1e-9 * (double)tp.tv_nsec;
		for (;;) {
			uint64_t st = *(volatile uint64_t *)&dl->dq_state;
			if (atomic_load(&ran) == total && atomic_load(&owed) == 0 && atomic_load(&n_susp) == atomic_load(&n_res) &&
					!(st & DISPATCH_QUEUE_DRAIN_OWNER_MASK) && !(st & DISPATCH_QUEUE_ENQUEUED) && !_dq_state_is_in_barrier(st) &&
					dl->dq_items_tail == NULL) { ok = 1; break; }
			clock_gettime(CLOCK_MONOTONIC, &tp);
			double now = (double)tp.tv_sec + 1e-9 * (double)tp.tv_nsec;
			int progress = atomic_load(&ran) + atomic_load(&n_res);
			if (progress != last_ran) { last_ran = progress; last_progress = now; }
			else if (now - last_progress > 20.0) break;   // stranded: report and stop
			usleep(50);
		}
		atomic_store(&stop_helper, 1); pthread_join(thh, NULL);
		usleep(300);
		uint64_t st1 = *(volatile uint64_t *)&dl->dq_state;
		unsigned long long seq1 = atomic_load(&dv_seq);
		printf("R %d %" PRIuPTR " %d %d %d %d %d %" PRIu64 " %" PRIu64 " %llu %llu %d %d %d %d %d %d %u %llu %d\n", i, (uintptr_t)dl, inactive, nsub, nctl,
				total, cur_wq, st0, st1, seq0, seq1, atomic_load(&ran), ok, atomic_load(&n_susp), atomic_load(&n_res),
				atomic_load(&n_act), deep, (unsigned)dl->dq_side_suspend_cnt,
				(unsigned long long)(st1 & DISPATCH_QUEUE_ROLE_MASK),
				(int)_dispatch_queue_wakeup_qos(dl, _dispatch_queue_push_qos(dl, DISPATCH_QOS_UNSPECIFIED)));
		if (!ok) break;
		// the queue is deliberately kept (leaked): the recorder's range must stay valid
	}
	atomic_store(&dv_enabled, 0);
	dv_dump(stdout);
	return 0;
}
