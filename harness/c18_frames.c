// C18 (missing clause) correspondence driver: queue-specific data, current queue and dispatch_assert_queue inside
// work items, over generated queue hierarchies and every submission path.
// White-box only for OBSERVATION (thread frame stack, dq_state words, do_type): every action on the library goes
// through its public API (plus the exported _4CF main-queue hooks).  One scenario per process (stdin).
//
// scenario lines (ids: created queues 1..99, root queues 100+index, main queue 200, a timer source 400):
//   MODE cf|dm            cf: the main thread services the main queue with _dispatch_main_queue_callback_4CF
//                         dm: the main thread calls dispatch_main() (main queue becomes an ordinary serial queue)
//   NK <n>                keys 1..n
//   Q <id> s|c|w <target> create serial / concurrent queue or workloop; target = id, or 0 for the default
//   W <id>                "watched": include the queue with this id (root/main/source) in the observation table
//   S <qid> <key> <val> <dtor>   dispatch_queue_set_specific(q, key, val, dtor ? destructor : NULL)  (val 0 = NULL, key 0 = NULL)
//   D                     dump dispatch_queue_get_specific for every table queue and key
//   I <iid> <api> <qid> <ctx> <busy> <niter> <amode>
//                         api: 0 dispatch_async, 1 _async_f, 2 barrier_async, 3 group_async, 4/5 async of a dispatch_block_create'd
//                         block (plain / BARRIER), 6 barrier_async_f, 7 group_async_f, 8 dispatch_after, 9 group_notify,
//                         10 sync, 11 sync_f, 12 barrier_sync, 13 barrier_sync_f, 14 async_and_wait, 15 barrier_async_and_wait,
//                         16 sync of a created block, 17 async_and_wait_f, 18 barrier_async_and_wait_f, 19 async_and_wait of a
//                         created BARRIER block, 20 dispatch_apply, 21 dispatch_apply_f (qid -1 = DISPATCH_APPLY_AUTO),
//                         30 no submission (the probe runs directly in the context)
//                         one submission; ctx = T (driver pthread, no queue) | M (main thread, top level) |
//                         N<iid> (from inside item <iid>, performed by its iteration 0); busy = id of a queue to keep
//                         busy (0 none); niter for dispatch_apply; amode 1 = also run dispatch_assert_queue[_not]
//                         for every table queue in forked children
//   X <what> <qid>        expected-crash probe run in a forked child: 1 set_specific, 2 dispatch_sync
//   R                     release every created queue, wait for destructors
// output: C (constants), G (realised graph), D, P (one per executed item iteration), X, Z (destructor log), E
#include "internal.h"
#include <inttypes.h>
#include <poll.h>
#include <sys/wait.h>

extern int _dispatch_get_main_queue_handle_4CF(void);
extern void _dispatch_main_queue_callback_4CF(void *msg);

#define MAXQ 48
#define MAXK 12
#define MAXI 128
#define MAXP 1024
#define MAXFR 24

static struct { int id; dispatch_queue_t q; } tab[MAXQ];
static int ntab;
static dispatch_queue_t created[100];
static char labels[100][16];
static int nkeys;
static char keys[MAXK + 1];
static dispatch_source_t the_source;
static int mode_dm;
static pthread_t main_thread;

#define KEY(k) ((k) ? (const void *)&keys[k] : NULL)   /* key 0 is the NULL key */
static dispatch_queue_t Q(int id) {
	if (id >= 1 && id < 100) return created[id];
	if (id >= 100 && id < 100 + (int)DISPATCH_ROOT_QUEUE_COUNT) return _dispatch_root_queues[id - 100]._as_dq;
	if (id == 200) return dispatch_get_main_queue();
	if (id == 400) return (dispatch_queue_t)the_source;
	return NULL;
}
static int idof(void *p) {
	if (!p) return 0;
	for (int i = 1; i < 100; i++) if ((void *)created[i] == p) return i;
	for (int i = 0; i < (int)DISPATCH_ROOT_QUEUE_COUNT; i++) if ((void *)&_dispatch_root_queues[i] == p) return 100 + i;
	if (p == (void *)&_dispatch_main_q) return 200;
	if (p == (void *)&_dispatch_mgr_q) return 300;
	if (p == (void *)the_source) return 400;
	return -1;
}
static void watch(int id) {
	for (int i = 0; i < ntab; i++) if (tab[i].id == id) return;
	if (ntab < MAXQ && Q(id)) { tab[ntab].id = id; tab[ntab].q = Q(id); ntab++; }
}
static int label_id(const char *l) {
	for (int i = 1; i < 100; i++) if (created[i] && l == created[i]->dq_label) return i;
	for (int i = 0; i < (int)DISPATCH_ROOT_QUEUE_COUNT; i++) if (l == _dispatch_root_queues[i].dq_label) return 100 + i;
	if (l == _dispatch_main_q.dq_label) return 200;
	if (l == _dispatch_mgr_q.dq_label) return 300;
	return -1;
}

typedef struct item {
	int iid, api, qid, ctxkind, outer, busy, niter, amode;
	int nchild, child[8];
	pthread_t submitter;
} item_t;
static item_t items[MAXI];

typedef struct probe {
	int iid, iter, same, onmain, cq, label, nfr, fr[MAXFR];
	long tid;
	uintptr_t gs[MAXK + 1];
	uint64_t st[MAXQ];
	int find[MAXQ], aq[MAXQ], anq[MAXQ];
	int asserted;
} probe_t;
static probe_t probes[MAXP];
static int nprobes;
static int outstanding;
static uintptr_t dlog[4096];
static int ndlog;
static dispatch_group_t grp;

// watchdog: PROGRESS based (not elapsed time): the process gives up only when nothing at all has happened for stall_s seconds
// (a probe, a script operation, a destructor call, a finished item each count as progress).  C18_SLOW=<n> scales every limit.
static volatile long progress;
static int slow = 1, stall_s = 20;
#define PROGRESS() __atomic_fetch_add(&progress, 1, __ATOMIC_RELAXED)
static void *watchdog(void *arg) {
	(void)arg;
	long last = -1; int idle = 0;
	for (;;) {
		sleep(1);
		long now = __atomic_load_n(&progress, __ATOMIC_RELAXED);
		if (now != last) { last = now; idle = 0; continue; }
		if (++idle >= stall_s) { printf("E stalled\n"); fflush(stdout); _exit(3); }
	}
	return NULL;
}
// wait (progress based) until cond holds: gives up only after stall_s seconds in which the global progress counter did not move
#define WAIT_UNTIL_S(cond, secs) do { long _l = -1; int _idle = 0; while (!(cond)) { usleep(200); long _n = __atomic_load_n(&progress, __ATOMIC_RELAXED); \
	if (_n != _l) { _l = _n; _idle = 0; } else if (++_idle > (secs) * 5000) break; } } while (0)
#define WAIT_UNTIL(cond) WAIT_UNTIL_S(cond, stall_s)

static void destructor(void *ctxt) {
	PROGRESS();
	int i = __atomic_fetch_add(&ndlog, 1, __ATOMIC_SEQ_CST);
	if (i < 4096) dlog[i] = (uintptr_t)ctxt;
}

// exit status of a child that calls f(q): 0 = returned, else the signal that killed it (or 1000+status)
static int in_child(void (*f)(dispatch_queue_t), dispatch_queue_t q) {
	pid_t p = fork();
	if (p == 0) { alarm(60 * (unsigned)slow); f(q); _exit(0); }     // the child only reads a word and walks the frames
	if (p < 0) return -1;
	int st = 0;
	while (waitpid(p, &st, 0) < 0 && errno == EINTR) { }
	if (WIFEXITED(st)) return WEXITSTATUS(st) == 0 ? 0 : 1000 + WEXITSTATUS(st);
	return WTERMSIG(st);
}

static void submit(item_t *it);

static void probe_now(item_t *it, size_t iter) {
	int pi = __atomic_fetch_add(&nprobes, 1, __ATOMIC_SEQ_CST);
	PROGRESS();
	if (pi >= MAXP) return;
	probe_t *p = &probes[pi];
	p->iid = it->iid; p->iter = (int)iter;
	p->same = pthread_equal(pthread_self(), it->submitter) ? 1 : 0;
	p->onmain = pthread_equal(pthread_self(), main_thread) ? 1 : 0;
	p->tid = (long)_dispatch_tid_self();
	// public API observations
	for (int k = 0; k <= nkeys; k++) p->gs[k] = (uintptr_t)dispatch_get_specific(KEY(k));
	p->label = label_id(dispatch_queue_get_label(DISPATCH_CURRENT_QUEUE_LABEL));
	// white-box observations: the frame stack as it is, the state words, the iterator's verdicts
	p->cq = idof(_dispatch_queue_get_current());
	dispatch_thread_frame_t f = _dispatch_thread_frame_get_current();
	p->nfr = 0;
	while (f && p->nfr < MAXFR) { p->fr[p->nfr++] = idof(f->dtf_queue); f = f->dtf_prev; }
	if (f) p->nfr = -1;
	for (int i = 0; i < ntab; i++) {
		p->st[i] = tab[i].id == 400 ? 0 : os_atomic_load2o(tab[i].q, dq_state, relaxed);
		p->find[i] = _dispatch_thread_frame_find_queue(tab[i].q) ? 1 : 0;
	}
	p->asserted = it->amode;
	if (it->amode) {
		for (int i = 0; i < ntab; i++) {
			p->aq[i] = in_child(dispatch_assert_queue, tab[i].q);
			p->anq[i] = in_child(dispatch_assert_queue_not, tab[i].q);
			PROGRESS();
		}
	}
}

static void item_body(item_t *it, size_t iter) {
	probe_now(it, iter);
	if (iter == 0) for (int c = 0; c < it->nchild; c++) submit(&items[it->child[c]]);
}
static void item_body_f(void *ctxt) { item_body(ctxt, 0); __atomic_fetch_sub(&outstanding, 1, __ATOMIC_SEQ_CST); }
static void item_body_sync_f(void *ctxt) { item_body(ctxt, 0); }
static void item_body_apply_f(void *ctxt, size_t i) { item_body(ctxt, i); }
static void blocker_f(void *ctxt) { (void)ctxt; usleep(4000); PROGRESS(); __atomic_fetch_sub(&outstanding, 1, __ATOMIC_SEQ_CST); }

static void submit(item_t *it) {
	dispatch_queue_t q = it->qid == -1 ? DISPATCH_APPLY_AUTO : Q(it->qid);
	it->submitter = pthread_self();
	__atomic_fetch_add(&outstanding, 1, __ATOMIC_SEQ_CST);
	if (it->busy) {
		dispatch_queue_t bq = Q(it->busy);
		__atomic_fetch_add(&outstanding, 1, __ATOMIC_SEQ_CST);
		if (bq->dq_width == 1) dispatch_async_f(bq, NULL, blocker_f); else dispatch_barrier_async_f(bq, NULL, blocker_f);
		usleep(300);
	}
	dispatch_block_t async_b = ^{ item_body(it, 0); __atomic_fetch_sub(&outstanding, 1, __ATOMIC_SEQ_CST); };
	dispatch_block_t sync_b = ^{ item_body(it, 0); };
	int is_async = 1;
	switch (it->api) {
	case 0: dispatch_async(q, async_b); break;
	case 1: dispatch_async_f(q, it, item_body_f); break;
	case 2: dispatch_barrier_async(q, async_b); break;
	case 3: dispatch_group_async(grp, q, async_b); break;
	case 4: { dispatch_block_t b = dispatch_block_create(0, async_b); dispatch_async(q, b); Block_release(b); break; }
	case 5: { dispatch_block_t b = dispatch_block_create(DISPATCH_BLOCK_BARRIER, async_b); dispatch_async(q, b); Block_release(b); break; }
	case 6: dispatch_barrier_async_f(q, it, item_body_f); break;
	case 7: dispatch_group_async_f(grp, q, it, item_body_f); break;
	case 8: dispatch_after(dispatch_time(DISPATCH_TIME_NOW, 200000), q, async_b); break;
	case 9: { dispatch_group_t g2 = dispatch_group_create(); dispatch_group_enter(g2); dispatch_group_notify(g2, q, async_b);
		dispatch_group_leave(g2); dispatch_release(g2); break; }
	case 10: is_async = 0; dispatch_sync(q, sync_b); break;
	case 11: is_async = 0; dispatch_sync_f(q, it, item_body_sync_f); break;
	case 12: is_async = 0; dispatch_barrier_sync(q, sync_b); break;
	case 13: is_async = 0; dispatch_barrier_sync_f(q, it, item_body_sync_f); break;
	case 14: is_async = 0; dispatch_async_and_wait(q, sync_b); break;
	case 15: is_async = 0; dispatch_barrier_async_and_wait(q, sync_b); break;
	case 16: { is_async = 0; dispatch_block_t b = dispatch_block_create(0, sync_b); dispatch_sync(q, b); Block_release(b); break; }
	case 17: is_async = 0; dispatch_async_and_wait_f(q, it, item_body_sync_f); break;
	case 18: is_async = 0; dispatch_barrier_async_and_wait_f(q, it, item_body_sync_f); break;
	case 19: { is_async = 0; dispatch_block_t b = dispatch_block_create(DISPATCH_BLOCK_BARRIER, sync_b); dispatch_async_and_wait(q, b); Block_release(b); break; }
	case 20: is_async = 0; dispatch_apply((size_t)it->niter, q, ^(size_t i) { item_body(it, i); }); break;
	case 21: is_async = 0; dispatch_apply_f((size_t)it->niter, q, it, item_body_apply_f); break;
	case 30: is_async = 0; item_body(it, 0); break;   // no submission: observe the submitting context itself
	default: is_async = 0; break;
	}
	if (!is_async) __atomic_fetch_sub(&outstanding, 1, __ATOMIC_SEQ_CST);
}

static void wait_idle(void) {
	WAIT_UNTIL(__atomic_load_n(&outstanding, __ATOMIC_SEQ_CST) <= 0);
	if (__atomic_load_n(&outstanding, __ATOMIC_SEQ_CST) > 0) { printf("E hung\n"); fflush(stdout); _exit(3); }
}

// requests executed by the main thread at top level (ctx M)
static item_t *volatile mailbox;
static volatile int driver_done;

static void crash_set_specific(dispatch_queue_t q) { dispatch_queue_set_specific(q, &keys[1], (void *)(uintptr_t)77, NULL); }
static void crash_sync(dispatch_queue_t q) { dispatch_sync(q, ^{ }); }

static char *script[4096];
static int nscript;

static void print_probe(probe_t *p) {
	printf("P %d %d %d %d %ld %d %d F %d", p->iid, p->iter, p->same, p->onmain, p->tid, p->cq, p->label, p->nfr);
	for (int i = 0; i < p->nfr; i++) printf(" %d", p->fr[i]);
	printf(" K");
	for (int k = 0; k <= nkeys; k++) printf(" %" PRIuPTR, p->gs[k]);
	printf(" S");
	for (int i = 0; i < ntab; i++) printf(" %" PRIu64, p->st[i]);
	printf(" I");
	for (int i = 0; i < ntab; i++) printf(" %d", p->find[i]);
	printf(" A %d", p->asserted);
	if (p->asserted) { for (int i = 0; i < ntab; i++) printf(" %d %d", p->aq[i], p->anq[i]); }
	printf("\n");
}

static void print_graph(void) {
	printf("C %lu %lu %lu %lu %lu %lu %d %d\n", (unsigned long)_DISPATCH_LANE_TYPE, (unsigned long)_DISPATCH_WORKLOOP_TYPE,
			(unsigned long)_DISPATCH_META_TYPE_MASK, (unsigned long)_DISPATCH_QUEUE_BASE_TYPEFLAG, (unsigned long)DISPATCH_QUEUE_MAIN_TYPE,
			(unsigned long)DLOCK_OWNER_MASK, 100 + DISPATCH_ROOT_QUEUE_IDX_DEFAULT_QOS_OVERCOMMIT, 100 + DISPATCH_ROOT_QUEUE_IDX_DEFAULT_QOS);
	for (int i = 0; i < ntab; i++) {
		dispatch_queue_t q = tab[i].q;
		if (tab[i].id == 400) { printf("G 400 %lu 0 %d 0\n", (unsigned long)dx_type(q), idof(q->do_targetq)); continue; }
		printf("G %d %lu %u %d %d\n", tab[i].id, (unsigned long)dx_type(q), (unsigned)q->dq_width, idof(q->do_targetq),
				_dispatch_queue_is_thread_bound(q) ? 1 : 0);
	}
}

static void *driver(void *arg) {
	(void)arg;
	if (mode_dm) { int n = 0; while (_dispatch_queue_is_thread_bound(&_dispatch_main_q) && n++ < 100000 * slow) { usleep(100); if (n % 1000 == 0) PROGRESS(); } }
	print_graph();
	int printed = 0;
	for (int li = 0; li < nscript; li++) {
		char *l = script[li];
		PROGRESS();
		if (l[0] == 'S') {
			int qid, k; unsigned long v; int d;
			sscanf(l + 1, "%d %d %lu %d", &qid, &k, &v, &d);
			dispatch_queue_set_specific(Q(qid), KEY(k), (void *)(uintptr_t)v, d ? destructor : NULL);
		} else if (l[0] == 'D') {
			printf("D");
			for (int i = 0; i < ntab; i++) {
				if (tab[i].id == 400) continue;
				for (int k = 0; k <= nkeys; k++) {
					uintptr_t v = (uintptr_t)dispatch_queue_get_specific(tab[i].q, KEY(k));
					if (v) printf(" %d %d %" PRIuPTR, tab[i].id, k, v);
				}
			}
			printf("\n");
		} else if (l[0] == 'I') {
			int iid; char ctx[16];
			sscanf(l + 1, "%d %*d %*d %15s", &iid, ctx);
			item_t *it = &items[iid];
			if (it->ctxkind == 2) continue;   // performed by its outer item
			if (it->ctxkind == 1) {
				mailbox = it;
				WAIT_UNTIL(!mailbox);
			} else {
				submit(it);
			}
			wait_idle();
			for (; printed < nprobes; printed++) print_probe(&probes[printed]);
		} else if (l[0] == 'X') {
			int what, qid;
			sscanf(l + 1, "%d %d", &what, &qid);
			printf("X %d %d %d\n", what, qid, in_child(what == 1 ? crash_set_specific : crash_sync, Q(qid)));
		} else if (l[0] == 'R') {
			int want = 0; sscanf(l + 1, "%d", &want);
			for (int i = 99; i >= 1; i--) if (created[i]) {
				if (dx_metatype(created[i]) == _DISPATCH_WORKLOOP_TYPE) dispatch_release((dispatch_workloop_t)created[i]); else dispatch_release(created[i]);
				created[i] = NULL;
			}
			// destructors are posted asynchronously on a root queue: wait for the hinted number (up to 3 s, times C18_SLOW, without any
			// progress), then a little longer to catch calls that should not come
			WAIT_UNTIL_S(__atomic_load_n(&ndlog, __ATOMIC_SEQ_CST) >= want, 3 * slow);
			usleep(20000);
		} else if (l[0] == 'Y') {
			// wait for posted destructors: Y <count>
			int want = 0; sscanf(l + 1, "%d", &want);
			WAIT_UNTIL_S(__atomic_load_n(&ndlog, __ATOMIC_SEQ_CST) >= want, 3 * slow);
			usleep(5000);
			printf("Z");
			int m = __atomic_load_n(&ndlog, __ATOMIC_SEQ_CST);
			for (int i = 0; i < m && i < 4096; i++) printf(" %" PRIuPTR, dlog[i]);
			printf("\n");
		}
	}
	printf("E ok\n");
	fflush(stdout);
	if (mode_dm) _exit(0);
	driver_done = 1;
	return NULL;
}

int main(void) {
	static char buf[1 << 20];
	size_t n = fread(buf, 1, sizeof buf - 1, stdin);
	buf[n] = 0;
	setenv("LIBDISPATCH_LOG", "NO", 1);
	main_thread = pthread_self();
	if (getenv("C18_SLOW")) { slow = atoi(getenv("C18_SLOW")); if (slow < 1) slow = 1; }
	stall_s = 20 * slow;
	{ pthread_t wd; pthread_create(&wd, NULL, watchdog, NULL); }
	grp = dispatch_group_create();
	the_source = dispatch_source_create(DISPATCH_SOURCE_TYPE_TIMER, 0, 0, dispatch_get_global_queue(0, 0));
	char *save = NULL;
	for (char *l = strtok_r(buf, "\n", &save); l; l = strtok_r(NULL, "\n", &save)) {
		if (!strncmp(l, "MODE", 4)) mode_dm = strstr(l, "dm") != NULL;
		else if (!strncmp(l, "NK", 2)) nkeys = atoi(l + 2);
		else if (l[0] == 'Q') {
			int id, tgt; char kind;
			sscanf(l + 1, "%d %c %d", &id, &kind, &tgt);
			snprintf(labels[id], sizeof labels[id], "q%d", id);
			dispatch_queue_t t = tgt ? Q(tgt) : NULL;
			if (kind == 'w') {
				// a workloop's target is fixed by the library
				created[id] = (dispatch_queue_t)dispatch_workloop_create(labels[id]);
			} else {
				created[id] = dispatch_queue_create_with_target(labels[id], kind == 'c' ? DISPATCH_QUEUE_CONCURRENT : DISPATCH_QUEUE_SERIAL, t);
			}
			watch(id);
		} else if (l[0] == 'W') watch(atoi(l + 1));
		else if (l[0] == 'I') {
			item_t it = {0}; char ctx[16];
			sscanf(l + 1, "%d %d %d %15s %d %d %d", &it.iid, &it.api, &it.qid, ctx, &it.busy, &it.niter, &it.amode);
			it.ctxkind = ctx[0] == 'T' ? 0 : ctx[0] == 'M' ? 1 : 2;
			if (it.ctxkind == 2) {
				it.outer = atoi(ctx + 1);
				item_t *o = &items[it.outer];
				if (o->nchild < 8) o->child[o->nchild++] = it.iid;
			}
			int nc = items[it.iid].nchild; int ch[8]; memcpy(ch, items[it.iid].child, sizeof ch);
			items[it.iid] = it; items[it.iid].nchild = nc; memcpy(items[it.iid].child, ch, sizeof ch);
			script[nscript++] = l;
		} else if (strchr("SDXRY", l[0])) script[nscript++] = l;
	}
	// every created queue's realised target is watched too
	for (int i = 1; i < 100; i++) if (created[i]) { int t = idof(created[i]->do_targetq); if (t > 0) watch(t); }
	fflush(stdout);
	pthread_t thr;
	pthread_create(&thr, NULL, driver, NULL);
	if (mode_dm) dispatch_main();
	int fd = _dispatch_get_main_queue_handle_4CF();
	while (!driver_done) {
		item_t *m = mailbox;
		if (m) { submit(m); mailbox = NULL; }
		struct pollfd pfd = { .fd = fd, .events = POLLIN };
		(void)poll(&pfd, 1, 1);
		_dispatch_main_queue_callback_4CF(NULL);
	}
	pthread_join(thr, NULL);
	return 0;
}
