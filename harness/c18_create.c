// C18 correspondence driver for queue CREATION with every kind of target (white-box only for observation: the queue is
// created, labelled and queried through the public API; do_targetq, dq_width, dq_state, dq_atomic_flags and dq_priority
// are read to compare the words with Model/Create.v).
//   C                              -> the constants of shims/priority.h / queue_internal.h the model repeats, then the
//                                     dq_priority of the 12 root queues
//   N <attr> <tkind> <targ> <fork> -> create a queue from attribute <attr> (-1 = NULL, else index into _dispatch_queue_attrs):
//        tkind 0 dispatch_queue_create(label, attr)                      (NULL target, legacy)
//              1 dispatch_queue_create_with_target(label, attr, NULL)
//              2 ... target = &_dispatch_root_queues[targ]
//              3 ... target = a serial queue          (id 1)
//              4 ... target = a concurrent queue      (id 2)
//              5 ... target = a workloop              (id 3)
//              6 ... target = the main queue          (id 200)
//              7 ... target = a pthread root queue    (id 5; no do_targetq, not a global root)
//        fork 1: do it in a forked child (creations that may DISPATCH_CLIENT_CRASH)
//      output: attr tkind targ status [label_eq label_copied class relpri target width inactive autorelease_bits dq_state dqf dq_priority]
//              status 0 = created, else the signal that killed the child
#include "internal.h"
#include <inttypes.h>
#include <sys/wait.h>

static dispatch_queue_t t_serial, t_conc, t_main, t_pthread_root;
static dispatch_workloop_t t_wl;

static long target_id(dispatch_queue_t tq) {
	if (!tq) return 0;
	if ((dispatch_queue_global_t)tq >= _dispatch_root_queues && (dispatch_queue_global_t)tq < _dispatch_root_queues + DISPATCH_ROOT_QUEUE_COUNT)
		return 4096 + (long)((dispatch_queue_global_t)tq - _dispatch_root_queues);
	if (tq == t_serial) return 1;
	if (tq == t_conc) return 2;
	if (tq == (dispatch_queue_t)t_wl) return 3;
	if (tq == t_main) return 200;
	if (tq == t_pthread_root) return 5;
	return -1;
}

static void one(long a, int tkind, long targ) {
	dispatch_queue_attr_t dqa = a < 0 ? NULL : (dispatch_queue_attr_t)&_dispatch_queue_attrs[a];
	char lbl[32];
	snprintf(lbl, sizeof lbl, "L%ld.%d", a, tkind);
	dispatch_queue_t tq = NULL, q;
	switch (tkind) {
	case 2: tq = _dispatch_root_queues[targ]._as_dq; break;
	case 3: tq = t_serial; break;
	case 4: tq = t_conc; break;
	case 5: tq = (dispatch_queue_t)t_wl; break;
	case 6: tq = t_main; break;
	case 7: tq = t_pthread_root; break;
	}
	if (tkind == 0) q = dispatch_queue_create(lbl, dqa); else q = dispatch_queue_create_with_target(lbl, dqa, tq);
	const char *got = dispatch_queue_get_label(q);
	int rp = 99;
	unsigned cls = (unsigned)dispatch_queue_get_qos_class(q, &rp);
	dispatch_lane_t dl = upcast(q)._dl;
	uint64_t st = os_atomic_load2o(dl, dq_state, relaxed);
	uint32_t dqf = os_atomic_load2o(dl, dq_atomic_flags, relaxed);
	printf("%ld %d %ld 0 %d %d %u %d %ld %u %d %u %" PRIu64 " %u %u\n", a, tkind, targ, strcmp(got, lbl) == 0, got != lbl, cls, rp,
			target_id(q->do_targetq), (unsigned)dl->dq_width, (int)_dq_state_is_inactive(st), (unsigned)(dqf & _DQF_AUTORELEASE_MASK),
			st, (unsigned)(dqf & ~(uint32_t)DQF_TARGETED), (unsigned)q->dq_priority);
	if (_dq_state_is_inactive(st)) dispatch_activate(q);
	dispatch_release(q);
}

int main(void) {
	char line[256];
	setenv("LIBDISPATCH_LOG", "NO", 1);
	t_serial = dispatch_queue_create("t.serial", DISPATCH_QUEUE_SERIAL);
	t_conc = dispatch_queue_create("t.conc", DISPATCH_QUEUE_CONCURRENT);
	t_wl = dispatch_workloop_create("t.wl");
	t_main = dispatch_get_main_queue();
#if DISPATCH_USE_PTHREAD_ROOT_QUEUES
	t_pthread_root = dispatch_pthread_root_queue_create("t.pthread-root", 0, NULL, NULL);
#endif
	while (fgets(line, sizeof line, stdin)) {
		if (line[0] == 'C') {
			printf("C %lu %lu %lu %lu %lu %lu %lu %lu %lu %lu %" PRIu64 " %d %" PRIu64 " %" PRIu64 " %" PRIu64 " %lu %lu %lu %lu %d\n",
					(unsigned long)DISPATCH_PRIORITY_RELPRI_MASK, (unsigned long)DISPATCH_PRIORITY_QOS_MASK,
					(unsigned long)DISPATCH_PRIORITY_QOS_SHIFT, (unsigned long)DISPATCH_PRIORITY_REQUESTED_MASK,
					(unsigned long)DISPATCH_PRIORITY_FALLBACK_QOS_MASK, (unsigned long)DISPATCH_PRIORITY_FALLBACK_QOS_SHIFT,
					(unsigned long)DISPATCH_PRIORITY_FLAG_OVERCOMMIT, (unsigned long)DISPATCH_PRIORITY_FLAG_FALLBACK,
					(unsigned long)DISPATCH_PRIORITY_FLAG_FLOOR, (unsigned long)DISPATCH_PRIORITY_FLAG_INHERITED,
					(uint64_t)DISPATCH_QUEUE_WIDTH_FULL, (int)DISPATCH_QUEUE_WIDTH_SHIFT, (uint64_t)DISPATCH_QUEUE_INACTIVE,
					(uint64_t)DISPATCH_QUEUE_NEEDS_ACTIVATION, (uint64_t)DISPATCH_QUEUE_ROLE_BASE_ANON,
					(unsigned long)DQF_AUTORELEASE_ALWAYS, (unsigned long)DQF_AUTORELEASE_NEVER, (unsigned long)DQF_LABEL_NEEDS_FREE,
					(unsigned long)DQF_MUTABLE, t_pthread_root ? 1 : 0);
			printf("R");
			for (int i = 0; i < (int)DISPATCH_ROOT_QUEUE_COUNT; i++) printf(" %u", (unsigned)_dispatch_root_queues[i].dq_priority);
			printf("\n");
		} else if (line[0] == 'N') {
			long a, targ; int tkind, fk;
			if (sscanf(line + 1, "%ld %d %ld %d", &a, &tkind, &targ, &fk) != 4) continue;
			if (tkind == 7 && !t_pthread_root) { printf("%ld %d %ld -1\n", a, tkind, targ); continue; }
			if (fk) {
				fflush(stdout);
				pid_t p = fork();
				if (p == 0) { alarm(600); one(a, tkind, targ); fflush(stdout); _exit(0); }
				int st = 0;
				while (waitpid(p, &st, 0) < 0 && errno == EINTR) { }
				if (!(WIFEXITED(st) && WEXITSTATUS(st) == 0))
					printf("%ld %d %ld %d\n", a, tkind, targ, WIFSIGNALED(st) ? WTERMSIG(st) : 1000 + WEXITSTATUS(st));
			} else one(a, tkind, targ);
		}
	}
	fflush(stdout);
	return 0;
}
