// C17 harness (white-box: reads do_xref_cnt / do_ref_cnt of live objects, calls _dispatch_retain / _dispatch_release).
//
//   c17_refs seq                       scripts on stdin, one per line; counts printed at quiescent points
//     G <ops>        group script, one character per call:
//                    c<d> set_context(id d, 1..9)  C set_context(NULL)  f set_finalizer  F set_finalizer(NULL)
//                    t target queue #5  T target queue #6  e enter  l leave  n notify_f (on the notification queue)
//                    W _os_object_retain_weak  r dispatch_retain  R dispatch_release  i/j _dispatch_retain x1/x2  I/J _dispatch_release x1/x2
//                    a dispatch_group_async_f (enter here, leave on a worker)   w dispatch_group_wait(NOW)
//                    A dispatch_group_async_f of a block that itself does dispatch_group_async_f + notify_f on the group
//                    B the same, the application releasing its reference before the block runs (the block uses the group
//                      under its own outstanding enter only)
//       output: "G" then per call " xref ref nqref delivered" (-77 -77 when the object's memory was released), then
//               " | fin_runs fin_ctx_id fin_queue_id notif_delivered crashes"
//     L <ops>        lane script on a serial queue q (with helper objects):
//                    r R retain/release  s suspend  u resume  k add a child queue targeting q  K release the newest child
//                    p async one item to q (runs when q can run)  P async one item to the newest child
//                    S async an item that suspends q from inside its own drain (undone by a later u)
//                    Q the same with a second item queued behind it (the drain is interrupted: invoke_finish path)
//                    x set context+finalizer  y queue_set_specific(key, value, destructor)  z final settle
//                    m create timer source on q (inactive)  M arm (set_timer far future + activate)  X cancel  Z release source
//                    v create an initially inactive queue qi (reported in place of q until 'V' activates + releases it)
//                    h H suspend / resume qi while it is still inactive (takes no reference: inactive counts as suspended)
//                    g create a legacy queue (dispatch_queue_create) and retarget it onto q (dispatch_set_target_queue on an
//                      active queue: _dispatch_lane_legacy_set_target_queue)  G retarget it away to queue #6 and release it
//       output: "L" then per call " xref ref", then " | fin_runs fin_ctx_ok fin_on_target specific_dtor_runs items_run"
//   c17_refs stress <seed> <rounds> <permille>
//     rounds of 2..6 threads running random enter/leave/notify/retain/release/_dispatch_retain/_dispatch_release scripts
//     on one group per round under a token discipline kept by the harness; the last release is raced against the last
//     leave / pending notifications; recorder dump: obj 1 = the group (whole struct), obj 2 = refcount words of the
//     notification queue; thread traces are split per round by DVU_MARK events (a = round).
//     output: "R <round> <nthreads> <fin_runs> <fin_ctx_ok> <notifs_registered> <notifs_delivered>" then the dump.
#include "internal.h"
#include <inttypes.h>
#include <signal.h>
#include "dv_record.h"

enum { OP_RETAIN = 1, OP_RELEASE = 2, OP_ENTER = 3, OP_LEAVE = 4, OP_NOTIFY = 5, OP_SETCTX = 6, OP_SETFIN = 7, OP_SETTQ = 8,
	OP_IRETAIN = 9, OP_IRELEASE = 10, OP_WEAK = 11 };

static _Atomic int fin_runs, fin_ctx_id, fin_queue_id, delivered, items_run, specific_dtor_runs;
static _Atomic long progress;   // bumped by every callout: the no-progress watchdogs below look at it
static char ctxbuf[16]; static char qkey;
static dispatch_queue_t tq5, tq6, nq;

static int current_queue_id(void) { return (int)(intptr_t)dispatch_get_specific(&qkey); }
static void finalizer(void *ctx) {
	atomic_store(&fin_ctx_id, (int)((char *)ctx - ctxbuf));
	atomic_store(&fin_queue_id, current_queue_id());
	atomic_fetch_add(&fin_runs, 1); atomic_fetch_add(&progress, 1);
}
static void notif_fn(void *ctx) { (void)ctx; atomic_fetch_add(&delivered, 1); atomic_fetch_add(&progress, 1); }
static void item_fn(void *ctx) { (void)ctx; atomic_fetch_add(&items_run, 1); atomic_fetch_add(&progress, 1); }
static void work_fn(void *ctx) { (void)ctx; usleep(200); atomic_fetch_add(&progress, 1); }
// a group block that uses its group from inside, possibly after the application's last dispatch_release: a nested
// dispatch_group_async_f and a notification, both made under the block's own outstanding enter
static dispatch_group_t blk_g;
static void inner_fn(void *ctx) { (void)ctx; atomic_fetch_add(&progress, 1); }
static void using_fn(void *ctx) { (void)ctx; dispatch_group_async_f(blk_g, tq6, NULL, inner_fn); dispatch_group_notify_f(blk_g, nq, NULL, notif_fn); atomic_fetch_add(&progress, 1); }
// the value stored under the key is the number of the script that stored it: a destructor that runs late (it is submitted
// asynchronously when the queue is disposed) is counted for its own script, never for a later one
static _Atomic int dtor_by_script[1 << 16]; static int lane_no;
static void specific_dtor(void *v) { atomic_fetch_add(&dtor_by_script[(intptr_t)v & 0xffff], 1); atomic_fetch_add(&specific_dtor_runs, 1); atomic_fetch_add(&progress, 1); }
static void nop(void *c) { (void)c; }
static _Atomic int cancel_done;
static void cancel_done_fn(void *c) { (void)c; atomic_fetch_add(&cancel_done, 1); atomic_fetch_add(&progress, 1); }
static void suspend_self_fn(void *q) { dispatch_suspend((dispatch_queue_t)q); atomic_fetch_add(&items_run, 1); atomic_fetch_add(&progress, 1); }

// The memory of the group under test is never handed back to malloc: the harness can then tell exactly whether the library
// released it (freed_flag) without reading freed memory, and in stress mode the tracked address range is never reused by
// another allocation.  Not under ASan, which wants to see the free itself.
static void *volatile quarantined; static _Atomic int freed_flag;
#ifndef C17_ASAN
extern void __libc_free(void *);
void free(void *p) { if (p && p == quarantined) { atomic_store(&freed_flag, 1); return; } __libc_free(p); }
#endif

// Quiescence is CONDITION based, never a timing window: the driver passes, for every call of a script, the counts the model
// expects at the next quiescent point; after the barriers below the harness waits until the words have those values
// (a drainer's final release on a worker thread may still be a few instructions away) and gives up only when NOTHING has
// moved for NOPROGRESS_S seconds (then it reports what it sees, which the driver flags).  `progress` is bumped by every
// callout (finalizer, notification, item, destructor, cancel handler).
#define NOPROGRESS_S 4.0
static double now_s(void) { struct timespec ts; clock_gettime(CLOCK_MONOTONIC, &ts); return (double)ts.tv_sec + 1e-9 * (double)ts.tv_nsec; }
static void settle_to(volatile int *a, int wa, volatile int *b, int wb) {
	int la = a ? *a : 0, lb = b ? *b : 0; long lp = atomic_load(&progress); double t0 = now_s();
	for (;;) {
		int ca = a ? *a : 0, cb = b ? *b : 0; long cp = atomic_load(&progress);
		if ((!a || ca == wa) && (!b || cb == wb)) return;
		if (ca != la || cb != lb || cp != lp) { la = ca; lb = cb; lp = cp; t0 = now_s(); }
		else if (now_s() - t0 > NOPROGRESS_S) return;
		usleep(100);
	}
}
// without expectations (first contact with an object whose history is unknown): until nothing has changed for a while
static void settle2(volatile int *a, volatile int *b) {
	int stable = 0, la = a ? *a : 0, lb = b ? *b : 0;
	for (int k = 0; k < 4000 && stable < 10; k++) {
		usleep(150);
		int ca = a ? *a : 0, cb = b ? *b : 0;
		if (ca == la && cb == lb) stable++; else { stable = 0; la = ca; lb = cb; }
	}
}
// wait for a callout to have happened; gives up only after NOPROGRESS_S seconds without any callout anywhere
static void wait_for(_Atomic int *v, int want) {
	long lp = atomic_load(&progress); int lv = atomic_load(v); double t0 = now_s();
	while (atomic_load(v) < want) {
		long cp = atomic_load(&progress); int cv = atomic_load(v);
		if (cp != lp || cv != lv) { lp = cp; lv = cv; t0 = now_s(); } else if (now_s() - t0 > NOPROGRESS_S) return;
		usleep(100);
	}
}
// expectations: "a:b:c[:d];a:b:c[:d];..." one group per call
static int parse_exp(const char *e, int k, int out[4]) {
	if (!e || !*e) return 0;
	for (int i = 0; i < k; i++) { e = strchr(e, ';'); if (!e) return 0; e++; }
	out[3] = 0;
	return sscanf(e, "%d:%d:%d:%d", &out[0], &out[1], &out[2], &out[3]) >= 3;
}

static void run_group_script(const char *ops, const char *exp) {
	dispatch_group_t g = dispatch_group_create(); quarantined = g; atomic_store(&freed_flag, 0);
	atomic_store(&fin_runs, 0); atomic_store(&fin_ctx_id, 0); atomic_store(&fin_queue_id, -1); atomic_store(&delivered, 0);
	long x = 1, in = 0, enters = 0, pend = 0, asyncs = 0; int hasfin = 0, ctxid = 0, blk = 0;   // harness-side bookkeeping of what it holds
	settle2(&nq->do_ref_cnt, NULL); int nqbase = nq->do_ref_cnt;   // groups leaked by earlier scripts with pending notifications keep theirs
	printf("G"); int opno = 0;
	for (const char *p = ops; *p; p++, opno++) {
		switch (*p) {
		case 'c': p++; ctxid = *p - '0'; dispatch_set_context(g, ctxbuf + ctxid); break;
		case 'C': ctxid = 0; dispatch_set_context(g, NULL); break;
		case 'f': hasfin = 1; dispatch_set_finalizer_f(g, finalizer); break;
		case 'F': hasfin = 0; dispatch_set_finalizer_f(g, NULL); break;
		case 't': dispatch_set_target_queue(g, tq5); break;
		case 'T': dispatch_set_target_queue(g, tq6); break;
		case 'e': dispatch_group_enter(g); enters++; break;
		case 'l': dispatch_group_leave(g); enters--; if (enters + asyncs == 0) pend = 0; break;
		case 'n': dispatch_group_notify_f(g, nq, NULL, notif_fn); if (enters + asyncs > 0) pend++; break;
		case 'a': dispatch_group_async_f(g, tq6, NULL, work_fn); asyncs++; break;
		case 'A': blk_g = g; dispatch_group_async_f(g, tq6, NULL, using_fn); asyncs++; blk = 1; break;   // the block re-enters and notifies from inside
		case 'B': blk_g = g; dispatch_suspend(tq6); dispatch_group_async_f(g, tq6, NULL, using_fn); dispatch_release(g); x--;
			dispatch_resume(tq6); asyncs++; blk = 1; break;   // ... and runs AFTER the application's release: only its own enter keeps g alive
		case 'w': (void)dispatch_group_wait(g, DISPATCH_TIME_NOW); break;
		case 'W': if (_os_object_retain_weak(g->_as_os_obj)) x++; break;   // succeeds iff external references still exist
		case 'r': dispatch_retain(g); x++; break;
		case 'R': dispatch_release(g); x--; break;
		case 'i': _dispatch_retain(g); in++; break;
		case 'j': _dispatch_retain_2(g); in += 2; break;
		case 'I': _dispatch_release(g); in--; break;
		case 'J': _dispatch_release_2(g); in -= 2; break;
		}
		if (asyncs) {   // wait until the item and the leave libdispatch performs after it are done: net effect enter + leave
			dispatch_sync_f(tq6, NULL, nop); dispatch_sync_f(tq6, NULL, nop); usleep(600); asyncs = 0;
			if (blk) { if (enters > 0) pend++; blk = 0; }     // the block registered one notification
			if (enters == 0) pend = 0;
		}
		int alive = (x > 0) || (in > 0) || (enters > 0) || (pend > 0);
		dispatch_sync_f(nq, NULL, nop);    // notification blocks submitted so far have run; then wait for the drainer's last release
		int ex[4];
		if (parse_exp(exp, opno, ex)) {
			if (ex[0] == -77) { for (double t0 = now_s(); !atomic_load(&freed_flag) && now_s() - t0 < NOPROGRESS_S;) usleep(100);   // the model says: released
				settle_to(NULL, 0, &nq->do_ref_cnt, nqbase + ex[2]); }
			else settle_to((alive && !atomic_load(&freed_flag)) ? &g->do_ref_cnt : NULL, ex[1], &nq->do_ref_cnt, nqbase + ex[2]);
		} else settle2((alive && !atomic_load(&freed_flag)) ? &g->do_ref_cnt : NULL, &nq->do_ref_cnt);
		if (alive && !atomic_load(&freed_flag) && g->do_vtable != NULL) printf(" %d %d %d %d", g->do_xref_cnt, g->do_ref_cnt, nq->do_ref_cnt - nqbase, atomic_load(&delivered));
		else printf(" -77 -77 %d %d", nq->do_ref_cnt - nqbase, atomic_load(&delivered));
		fflush(stdout);
	}
	if (hasfin && ctxid && !((x > 0) || (in > 0) || (enters > 0) || (pend > 0))) wait_for(&fin_runs, 1);   // everything dropped: it must come
	usleep(2000);
	printf(" | %d %d %d %d 0\n", atomic_load(&fin_runs), atomic_load(&fin_ctx_id), atomic_load(&fin_queue_id), atomic_load(&delivered));
	fflush(stdout);
}

static void run_lane_script(const char *ops, const char *exp) {
	dispatch_queue_t q = dispatch_queue_create_with_target("c17.q", NULL, tq5), qi = NULL, kids[16]; int nk = 0;
	dispatch_source_t src = NULL; dispatch_object_t shown; shown._dq = q; dispatch_queue_t lk = NULL;
	atomic_store(&fin_runs, 0); atomic_store(&fin_ctx_id, 0); atomic_store(&fin_queue_id, -1); atomic_store(&items_run, 0);
	atomic_store(&specific_dtor_runs, 0);
	long x = 1, susp = 0; int hasfin = 0, hasspec = 0; static char skey; lane_no = (lane_no + 1) & 0xffff; if (!lane_no) lane_no = 1;
	atomic_store(&dtor_by_script[lane_no], 0);
	printf("L"); int opno = 0;
	for (const char *p = ops; *p; p++, opno++) {
		switch (*p) {
		case 'r': dispatch_retain(q); x++; break;
		case 'R': dispatch_release(q); x--; break;
		case 's': dispatch_suspend(q); susp++; break;
		case 'u': dispatch_resume(q); susp--; break;
		case 'k': kids[nk++] = dispatch_queue_create_with_target("c17.kid", NULL, q); break;
		case 'K': dispatch_release(kids[--nk]); break;
		case 'p': dispatch_async_f(q, NULL, item_fn); break;
		case 'P': dispatch_async_f(kids[nk - 1], NULL, item_fn); break;
		case 'Q': { int before = atomic_load(&items_run); dispatch_suspend(q); dispatch_async_f(q, q, suspend_self_fn); dispatch_async_f(q, NULL, item_fn);
			dispatch_resume(q); wait_for(&items_run, before + 1); susp++; } break;   // the drain is interrupted with an item left: _dispatch_queue_invoke_finish
		case 'S': { int before = atomic_load(&items_run); dispatch_async_f(q, q, suspend_self_fn); wait_for(&items_run, before + 1); susp++; } break;  // the drain is interrupted by a suspension: _dispatch_queue_invoke_finish
		case 'x': hasfin = 1; dispatch_set_context(q, ctxbuf + 3); dispatch_set_finalizer_f(q, finalizer); break;
		case 'y': hasspec = 1; dispatch_queue_set_specific(q, &skey, (void *)(intptr_t)lane_no, specific_dtor); break;
		case 'm': src = dispatch_source_create(DISPATCH_SOURCE_TYPE_TIMER, 0, 0, q); dispatch_source_set_event_handler_f(src, nop);
			atomic_store(&cancel_done, 0); dispatch_source_set_cancel_handler_f(src, cancel_done_fn); shown._ds = src; break;
		case 'M': dispatch_source_set_timer(src, dispatch_time(DISPATCH_TIME_NOW, 3600 * NSEC_PER_SEC), DISPATCH_TIME_FOREVER, 0);
			dispatch_activate(src); break;
		case 'X': dispatch_source_cancel(src); wait_for(&cancel_done, 1); break;      // the cancel handler runs after unregistration
		case 'Z': { int before = (x > 0 || nk > 0) ? *(volatile int *)&q->do_ref_cnt : 0; dispatch_release(src);       // the source gives up its target reference when it is disposed
			if (x > 0 || nk > 0) { for (int k = 0; k < 25000 && *(volatile int *)&q->do_ref_cnt >= before; k++) usleep(100); }
			else if (hasfin) wait_for(&fin_runs, 1); else usleep(30000);   // q itself goes away with the source: do not touch it
			src = NULL; shown._dq = q; } break;
		case 'v': qi = dispatch_queue_create("c17.qi", dispatch_queue_attr_make_initially_inactive(NULL)); shown._dq = qi; break;
		case 'V': dispatch_activate(qi); usleep(300); dispatch_release(qi); qi = NULL; shown._dq = q; break;
		case 'h': dispatch_suspend(qi); break;
		case 'H': dispatch_resume(qi); break;
		case 'g': lk = dispatch_queue_create("c17.lk", NULL); dispatch_set_target_queue(lk, q); dispatch_sync_f(lk, NULL, nop); break;
		case 'G': dispatch_set_target_queue(lk, tq6); dispatch_sync_f(lk, NULL, nop); dispatch_release(lk); lk = NULL; break;
		case 'z': break;
		}
		int alive = x > 0 || nk > 0 || src != NULL || lk != NULL;
		// deterministic quiescence: a barrier through every queue that can run (items submitted so far have run and the drain
		// lock is free again); what is left is the drainer's final release, a few instructions later: settle2
		if (alive && susp == 0) { for (int k = 0; k < nk; k++) dispatch_sync_f(kids[k], NULL, nop); dispatch_sync_f(q, NULL, nop); }
		int ex[4];
		if (parse_exp(exp, opno, ex) && ex[1] >= 0)
			settle_to(alive ? &q->do_ref_cnt : NULL, ex[1], (shown._dq != q && ex[3] >= 0) ? &shown._do->do_ref_cnt : NULL, ex[3]);
		else settle2(alive ? &q->do_ref_cnt : NULL, (shown._dq != q) ? &shown._do->do_ref_cnt : NULL);
		// two pairs: the queue q, and the object in focus (source / inactive queue) or q again
		if (alive) printf(" %d %d", q->do_xref_cnt, q->do_ref_cnt); else printf(" -77 -77");
		if (shown._dq != q) printf(" %d %d", shown._do->do_xref_cnt, shown._do->do_ref_cnt); else printf(" -78 -78");
		fflush(stdout);
	}
	if (hasfin && x <= 0) wait_for(&fin_runs, 1);
	if (hasspec && x <= 0) wait_for(&dtor_by_script[lane_no], 1);     // event based: the destructor is submitted at dispose
	usleep(3000);
	printf(" | %d %d %d %d %d\n", atomic_load(&fin_runs), atomic_load(&fin_ctx_id) == 3, atomic_load(&fin_queue_id) == 5,
			atomic_load(&dtor_by_script[lane_no]), atomic_load(&items_run));
	fflush(stdout);
}

// ------------------------------------------------------------------------------------------------ stress
#define MAXT 6
typedef struct { int idx, nops, round; uint64_t rng; } targ_t;
static dispatch_group_t sg; static _Atomic int registered; static pthread_barrier_t bar;
static inline uint64_t rnd(uint64_t *s) { uint64_t x = *s; x ^= x << 13; x ^= x >> 7; x ^= x << 17; return *s = x; }
// The harness-side book of references of one level: low 32 bits = references owned (by "the application": nobody in
// particular), high 32 bits = calls in progress that USE the object through one of them.  Any number of threads may be
// inside calls through the same reference; a release takes one reference out, and while calls are in progress it never
// takes the last one (the client contract of Model/Refcnt.v: call_guard).
typedef _Atomic uint64_t book_t;
static book_t bx, bi, be;   // external references, internal references, outstanding enters (an enter that has returned keeps the group alive too)
static int borrow(book_t *b) { uint64_t v = atomic_load(b);
	while ((uint32_t)v >= 1) if (atomic_compare_exchange_weak(b, &v, v + (1ull << 32))) return 1;
	return 0; }
static void unborrow(book_t *b) { atomic_fetch_sub(b, 1ull << 32); }
static void own(book_t *b, int n) { atomic_fetch_add(b, (uint64_t)n); }
static int take_out(book_t *b, unsigned n) { uint64_t v = atomic_load(b);    // n references to be released by the caller
	for (;;) { uint32_t pool = (uint32_t)v, bor = (uint32_t)(v >> 32);
		if (pool < n || (bor != 0 && pool - n < 1)) return 0;
		if (atomic_compare_exchange_weak(b, &v, v - n)) return 1; } }
static int take(_Atomic long *pool, long n, long keep) {   // take n tokens, leaving at least `keep`
	long t = atomic_load(pool);
	while (t - n >= keep) if (atomic_compare_exchange_weak(pool, &t, t - n)) return 1;
	return 0;
}
#define CALL(op, arg) dv_user(DVU_CALL, 1, (op), (arg))
#define RET() dv_user(DVU_RET, 1, 0, 0)
static void *stress_thr(void *a) {
	targ_t *t = (targ_t *)a; uint64_t r = t->rng;
	dv_user(DVU_MARK, 1, (unsigned long long)t->round, 0);
	pthread_barrier_wait(&bar);
	for (int k = 0; k < t->nops; k++) {
		unsigned c = (unsigned)(rnd(&r) % 100);
		if (c >= 44 && c < 54) { if (take_out(&be, 1)) { CALL(OP_LEAVE, 0); dispatch_group_leave(sg); RET(); } continue; }   // needs only its enter
		if (c >= 54 && c < 62) { if (take_out(&bx, 1)) { CALL(OP_RELEASE, 0); dispatch_release(sg); RET(); } continue; }
		if (c >= 62 && c < 68) { unsigned n = 1 + (unsigned)(rnd(&r) & 1);
			if (take_out(&bi, n)) { CALL(OP_IRELEASE, n); if (n == 1) _dispatch_release(sg); else _dispatch_release_2(sg); RET(); } continue; }
		// every other call USES the object through a reference somebody owns: an external one, else an internal one; several
		// threads are routinely inside such calls through the same reference
		// ... or under an outstanding enter only (using the group from inside a group block after the last release)
		int viaint = 0;
		if (((r >> 17) & 3) == 0 && borrow(&bi)) viaint = 1; else if (((r >> 17) & 3) == 1 && borrow(&be)) viaint = 2;
		else if (borrow(&bx)) viaint = 0; else if (borrow(&bi)) viaint = 1; else if (borrow(&be)) viaint = 2; else break;
		book_t *bk = viaint == 2 ? &be : viaint ? &bi : &bx; int fl = 100 * viaint;
		if (c < 24) { CALL(OP_ENTER + fl, 0); dispatch_group_enter(sg); RET(); own(&be, 1); }
		else if (c < 44) { CALL(OP_NOTIFY + fl, 0); atomic_fetch_add(&registered, 1); dispatch_group_notify_f(sg, nq, NULL, notif_fn); RET(); }
		else if (c < 78) { if (!viaint) { CALL(OP_RETAIN, 0); dispatch_retain(sg); RET(); own(&bx, 1); } }
		else if (c < 90) { int n = 1 + (int)(rnd(&r) & 1); CALL(OP_IRETAIN + fl, n); if (n == 1) _dispatch_retain(sg); else _dispatch_retain_2(sg); RET(); own(&bi, n); }
		else { CALL(OP_WEAK + fl, 0); bool ok = _os_object_retain_weak(sg->_as_os_obj); RET(); if (ok) own(&bx, 1); }
		unborrow(bk);
		if ((r >> 40) % 5 == 0) usleep((useconds_t)((r >> 20) % 120));
	}
	return NULL;
}
// the threads that drop everything that is left, racing each other and (in every other round) the workers still inside
// calls: external references, internal ones, leaves.  A dropper waits while the contract forbids the release (calls in
// progress through the last reference of its level).
typedef struct { int kind, round; volatile int *stop; } dropper_t;
static void *dropper(void *a) {
	dropper_t *d = (dropper_t *)a;
	dv_user(DVU_MARK, 1, (unsigned long long)d->round, 0);
	pthread_barrier_wait(&bar);
	for (;;) {
		int did = 0;
		if (d->kind == 0) { if (take_out(&bx, 1)) { CALL(OP_RELEASE, 0); dispatch_release(sg); RET(); did = 1; } }
		else if (d->kind == 1) { if (take_out(&be, 1)) { CALL(OP_LEAVE, 0); dispatch_group_leave(sg); RET(); did = 1; } }
		else { if (take_out(&bi, 1)) { CALL(OP_IRELEASE, 1); _dispatch_release(sg); RET(); did = 1; } }
		if (!did) { if (*d->stop) { // workers are done: nothing is borrowed any more; finish what is left
				uint64_t v = d->kind == 0 ? atomic_load(&bx) : d->kind == 2 ? atomic_load(&bi) : atomic_load(&be);
				if ((uint32_t)v == 0) break; }
			sched_yield(); }
	}
	return NULL;
}
static void on_sig(int s) { (void)s; }

static int stress(uint64_t seed, int rounds, int permille) {
	struct sigaction sa; memset(&sa, 0, sizeof sa); sa.sa_handler = on_sig; sigaction(SIGUSR1, &sa, NULL);
	dv_install(seed, permille);
	uint64_t r = seed * 6364136223846793005ull + 1442695040888963407ull;
	dv_track(nq, 16, 2);
	for (int i = 0; i < rounds; i++) {
		rnd(&r);
		int n = 2 + (int)((r >> 33) % (MAXT - 1));
		sg = dispatch_group_create(); quarantined = sg; atomic_store(&freed_flag, 0);
		atomic_store(&fin_runs, 0); atomic_store(&fin_ctx_id, 0); atomic_store(&delivered, 0); atomic_store(&registered, 0);
		dispatch_set_context(sg, ctxbuf + 4); dispatch_set_finalizer_f(sg, finalizer);
		atomic_store(&bx, 1); atomic_store(&bi, 0); atomic_store(&be, 0);
		// untrack the previous group, keep the queue words
		dv_untrack_all(); dv_track(nq, 16, 2);
		dv_track(sg, sizeof(struct dispatch_group_s), 1);
		dv_user(DVU_MARK, 1, (unsigned long long)i, 0);
		// sometimes a few more external references; often the workers all share the single one
		int extra = (int)((r >> 12) % 3);
		for (int k = 0; k < extra; k++) { CALL(OP_RETAIN, 0); dispatch_retain(sg); RET(); own(&bx, 1); }
		pthread_t th[MAXT], dt[3]; targ_t ta[MAXT]; dropper_t da[3]; volatile int stop = 0;
		int early = (i & 1);           // droppers racing the workers, or only each other
		pthread_barrier_init(&bar, NULL, (unsigned)n + (early ? 3u : 0u));
		for (int k = 0; k < n; k++) { ta[k].idx = k; ta[k].round = i; ta[k].nops = 6 + (int)((r >> (k * 3)) % 14); ta[k].rng = r ^ ((uint64_t)(k + 1) * 0x9E3779B97F4A7C15ull);
			pthread_create(&th[k], NULL, stress_thr, &ta[k]); }
		for (int k = 0; k < 3; k++) { da[k].kind = k; da[k].round = i; da[k].stop = &stop; }
		if (early) for (int k = 0; k < 3; k++) pthread_create(&dt[k], NULL, dropper, &da[k]);
		for (int k = 0; k < n; k++) pthread_join(th[k], NULL);
		if (!early) { pthread_barrier_destroy(&bar); pthread_barrier_init(&bar, NULL, 3);
			for (int k = 0; k < 3; k++) pthread_create(&dt[k], NULL, dropper, &da[k]); }
		stop = 1;
		for (int k = 0; k < 3; k++) pthread_join(dt[k], NULL);
		pthread_barrier_destroy(&bar);
		wait_for(&fin_runs, 1);
		int reg = atomic_load(&registered); wait_for(&delivered, reg); usleep(300);
		printf("R %d %d %d %d %d %d\n", i, n + 3, atomic_load(&fin_runs), atomic_load(&fin_ctx_id) == 4, reg, atomic_load(&delivered));
	}
	dv_untrack_all();
	dv_dump(stdout);
	return 0;
}

int main(int argc, char **argv) {
	setvbuf(stdout, NULL, _IOFBF, 1 << 20);
	tq5 = dispatch_queue_create("c17.tq5", NULL); dispatch_queue_set_specific(tq5, &qkey, (void *)5, NULL);
	tq6 = dispatch_queue_create("c17.tq6", NULL); dispatch_queue_set_specific(tq6, &qkey, (void *)6, NULL);
	nq = dispatch_queue_create("c17.nq", NULL);
	if (argc > 1 && !strcmp(argv[1], "stress"))
		return stress(argc > 2 ? strtoull(argv[2], 0, 10) : 1, argc > 3 ? atoi(argv[3]) : 20, argc > 4 ? atoi(argv[4]) : 150);
	static char line[1 << 15];
	while (fgets(line, sizeof line, stdin)) {
		char kind; static char ops[1 << 13], exp[1 << 13]; exp[0] = 0;
		if (sscanf(line, " %c %8000s %8000s", &kind, ops, exp) < 2) continue;
		if (kind == 'G') run_group_script(ops, exp); else if (kind == 'L') run_lane_script(ops, exp);
	}
	return 0;
}
