// C09 stress client + recorder: rounds of N threads racing dispatch_once_f on a fresh predicate, with schedule
// perturbation inside the library's atomic windows and signals (EINTR) aimed at threads that may be parked.
// Every call goes either directly to the library function dispatch_once_f (call mark argument 0) or through the REAL inline
// wrapper of dispatch/once.h, _dispatch_once_f (call mark argument 1: plain read of the predicate, the library is called only
// if it is not ~0l); after the race the main thread makes one more call through the wrapper (a "later call": fast path).
// usage: c09_once <seed> <rounds> <perturb_permille>
// output: "R <round> <nthreads> <initialiser runs> <final predicate, hex>" lines, then the recorder dump (E lines; obj = round).
#include <dispatch/dispatch.h>
#include <signal.h>
#include <errno.h>
#include "dv_record.h"
#undef dispatch_once_f   // dispatch_once_f = the library function itself; _dispatch_once_f = the inline wrapper of dispatch/once.h

#define MAXT 8
typedef struct { long pred; int round; volatile int inits; } slot_t;
static slot_t *slots; static int nrounds;
typedef struct { int round, idx, calls; uint64_t rng; } targ_t;
static pthread_barrier_t bar;

static void init_fn(void *ctx) {
	slot_t *s = (slot_t *)ctx;
	dv_user(DVU_CALLOUT_BEGIN, s->round, 0, 0);
	__sync_fetch_and_add(&s->inits, 1);
	uint64_t x = (uint64_t)s->round * 2654435761u;
	if (x % 3 == 0) usleep((useconds_t)(x % 300)); else if (x % 3 == 1) sched_yield();
	dv_user(DVU_CALLOUT_END, s->round, 0, 0);
}
static void *thr(void *a) {
	targ_t *t = (targ_t *)a; slot_t *s = &slots[t->round];
	pthread_barrier_wait(&bar);
	for (int c = 0; c < t->calls; c++) {
		if ((t->rng >> (c * 3)) & 1) usleep((useconds_t)((t->rng >> 8) % 200));
		if ((t->rng >> (c * 3 + 1)) & 1) {
			dv_user(DVU_CALL, s->round, 1, 0);
			_dispatch_once_f(&s->pred, s, init_fn);      // dispatch/once.h
		} else {
			dv_user(DVU_CALL, s->round, 0, 0);
			dispatch_once_f(&s->pred, s, init_fn);       // src/once.c
		}
		dv_user(DVU_RET, s->round, 0, 0);
	}
	return NULL;
}
static void on_sig(int s) { (void)s; }

int main(int argc, char **argv) {
	uint64_t seed = argc > 1 ? strtoull(argv[1], 0, 10) : 1; nrounds = argc > 2 ? atoi(argv[2]) : 50;
	int permille = argc > 3 ? atoi(argv[3]) : 150;
	struct sigaction sa; memset(&sa, 0, sizeof sa); sa.sa_handler = on_sig; sigaction(SIGUSR1, &sa, NULL); // no SA_RESTART
	slots = (slot_t *)calloc((size_t)nrounds, sizeof(slot_t));
	dv_install(seed, permille);
	uint64_t r = seed * 6364136223846793005ull + 1442695040888963407ull;
	for (int i = 0; i < nrounds; i++) {
		r = r * 6364136223846793005ull + 1442695040888963407ull;
		int n = 2 + (int)((r >> 33) % (MAXT - 1));
		slots[i].round = i; dv_track(&slots[i].pred, sizeof(long), i % 60 == 59 ? i : i);
		pthread_t th[MAXT]; targ_t ta[MAXT];
		pthread_barrier_init(&bar, NULL, (unsigned)n + 1);
		for (int k = 0; k < n; k++) { ta[k].round = i; ta[k].idx = k; ta[k].calls = 1 + (int)((r >> (k + 3)) & 1); ta[k].rng = r ^ (uint64_t)k * 0x9E3779B97F4A7C15ull;
			pthread_create(&th[k], NULL, thr, &ta[k]); }
		pthread_barrier_wait(&bar);
		// signal storm: interrupt whoever may be in futex_wait
		for (int j = 0; j < 6; j++) { usleep((useconds_t)((r >> (j * 5)) % 120)); pthread_kill(th[(r >> (j * 3)) % (unsigned)n], SIGUSR1); }
		for (int k = 0; k < n; k++) pthread_join(th[k], NULL);
		pthread_barrier_destroy(&bar);
		// a later call through the wrapper: the predicate is ~0l, the library must not be entered
		dv_user(DVU_CALL, i, 1, 0); _dispatch_once_f(&slots[i].pred, &slots[i], init_fn); dv_user(DVU_RET, i, 0, 0);
		printf("R %d %d %d %lx\n", i, n, slots[i].inits, (unsigned long)slots[i].pred);
		if (i % 60 == 59) { dv_untrack_all(); }
	}
	dv_dump(stdout);
	return 0;
}
