// C04 concurrent-lane conformance recorder (white-box build only for the layout of struct dispatch_lane_s; the
// scenarios use the public API plus the deprecated SPI dispatch_queue_set_width to get small widths).
//
// Each round creates ONE concurrent queue of width W (4094 = DISPATCH_QUEUE_WIDTH_MAX, or 2..8 set on the idle queue),
// tracks the queue object with dv_track, and drives it from 2..8 threads with a random mix of dispatch_sync_f /
// dispatch_barrier_sync_f / dispatch_async_f / dispatch_barrier_async_f / dispatch_apply_f under schedule perturbation
// inside the library's atomic operations; then it drains the queue, waits until dq_state is idle again, and goes on.
// Every atomic operation the DISPATCH_VERIF hook reports on the queue object is recorded (old value, operand / new value,
// success, source file and line), and so is every item begin / end (dv_user).
//
// usage: c04_clane <seed> <rounds> <perturb_permille> <scale> [mix|overflow]
// output:
//   O <sizeof lane> <off dq_state> <off dq_items_tail> <off dq_items_head>
//   R <round> <W> <nthreads> <items submitted> <items ran> <initial dq_state> <final dq_state> <idle> <overlap errors>
//     <order errors> <sync-return errors> <max readers seen together> <scenario>
//   END <rounds done> <events dumped>   (last line: absent or inconsistent = truncated output)
//   E ... (dv_record.h format; obj = round; line = source line + 100000 * file id: 1 queue.c, 2 inline_internal.h, 3 apply.c)
// harness-level events: DVU_CALLOUT_BEGIN / DVU_CALLOUT_END obj=round a=ticket b=kind (0 reader, 1 barrier, 2 apply iteration),
//   DVU_CALL / DVU_RET obj=round a=api b=ticket around every submission.
#include "internal.h"
#include <inttypes.h>
#include "dv_record.h"

extern void dispatch_queue_set_width(dispatch_queue_t dq, long width);

#define MAXT 8
#define MAXITEMS 60000

typedef struct { int round, ticket, kind, thr, idx; _Atomic int runs; } item_t;
static item_t *items;
static _Atomic int next_ticket, ran, readers_in, barriers_in, maxreaders, overlap_err, order_err, syncret_err;
static int cur_round; static dispatch_queue_t cur_q; static uint64_t round_rng;
static pthread_barrier_t bar;
static uintptr_t q_lo, q_hi; static size_t off_state;

static int file_id(const char *f) {
	size_t n = strlen(f);
	if (n >= 7 && !strcmp(f + n - 7, "queue.c")) return 1;
	if (n >= 17 && !strcmp(f + n - 17, "inline_internal.h")) return 2;
	if (n >= 7 && !strcmp(f + n - 7, "apply.c")) return 3;
	return 0;
}
static void cl_cb(const volatile void *addr, unsigned size, int kind, int order, unsigned long long a, unsigned long long b,
		int ok, const char *file, int line) {
	if (!atomic_load_explicit(&dv_enabled, memory_order_relaxed)) return;
	int saved_errno = errno;
	dv_thr_t *t = dv_me();
	uintptr_t p = (uintptr_t)addr; int n = atomic_load_explicit(&dv_nranges, memory_order_acquire), hit = 0;
	for (int i = n - 1; i >= 0; i--) if (p >= dv_ranges[i].lo && p < dv_ranges[i].hi) {
		dv_push(t, kind, order, dv_ranges[i].obj, (long)(p - dv_ranges[i].lo), (int)size, a, b, ok, line + 100000 * file_id(file));
		hit = 1; break;
	}
	if (dv_permille) {
		uint64_t r = dv_rand(t);
		if ((int)(r % 1000) < dv_permille) { if ((r >> 20) & 3) sched_yield(); else usleep((useconds_t)((r >> 24) % 60)); }
		// aimed delays (delays only): widen the windows around the transitions of the tracked dq_state word
		if (hit && p == q_lo + off_state && kind != 1 && (r >> 40) % 6 == 0) usleep((useconds_t)(10 + (r >> 44) % 120));
	}
	errno = saved_errno;
}

static void body_common(item_t *it) {
	dv_user(DVU_CALLOUT_BEGIN, it->round, (unsigned long long)it->ticket, (unsigned long long)it->kind);
	atomic_fetch_add(&it->runs, 1);
	if (it->kind == 1) {
		int b = atomic_fetch_add(&barriers_in, 1) + 1;
		if (b != 1 || atomic_load(&readers_in) != 0) atomic_fetch_add(&overlap_err, 1);
	} else {
		int c = atomic_fetch_add(&readers_in, 1) + 1, m = atomic_load(&maxreaders);
		while (c > m && !atomic_compare_exchange_weak(&maxreaders, &m, c)) { }
		if (atomic_load(&barriers_in) != 0) atomic_fetch_add(&overlap_err, 1);
	}
	uint64_t x = ((uint64_t)it->ticket + 1) * 0x9E3779B97F4A7C15ull ^ round_rng; x ^= x >> 29;
	if (x % 7 == 0) usleep((useconds_t)(x % 150)); else if (x % 3 == 0) sched_yield();
	if (it->kind == 1) { if (atomic_load(&readers_in) != 0) atomic_fetch_add(&overlap_err, 1); atomic_fetch_sub(&barriers_in, 1); }
	else { if (atomic_load(&barriers_in) != 0) atomic_fetch_add(&overlap_err, 1); atomic_fetch_sub(&readers_in, 1); }
	atomic_fetch_add(&ran, 1);
	dv_user(DVU_CALLOUT_END, it->round, (unsigned long long)it->ticket, (unsigned long long)it->kind);
}
static void work(void *ctx) { body_common((item_t *)ctx); }
typedef struct { item_t *base; } apply_ctx_t;
static void apply_work(void *ctx, size_t i) { body_common(&((apply_ctx_t *)ctx)->base[i]); }

static item_t *new_item(int kind, int thr, int idx) {
	int k = atomic_fetch_add(&next_ticket, 1);
	if (k >= MAXITEMS) { fprintf(stderr, "too many items\n"); exit(2); }
	item_t *it = &items[k]; it->round = cur_round; it->ticket = k; it->kind = kind; it->thr = thr; it->idx = idx; atomic_store(&it->runs, 0);
	return it;
}
enum { API_ASYNC = 0, API_SYNC, API_BARRIER_ASYNC, API_BARRIER_SYNC, API_APPLY };
static void submit(int api, int thr, int idx, uint64_t r) {
	item_t *it;
	switch (api) {
	case API_ASYNC: it = new_item(0, thr, idx); dv_user(DVU_CALL, cur_round, api, (unsigned long long)it->ticket);
		dispatch_async_f(cur_q, it, work); dv_user(DVU_RET, cur_round, api, (unsigned long long)it->ticket); break;
	case API_SYNC: it = new_item(0, thr, idx); dv_user(DVU_CALL, cur_round, api, (unsigned long long)it->ticket);
		dispatch_sync_f(cur_q, it, work);
		if (atomic_load(&it->runs) != 1) atomic_fetch_add(&syncret_err, 1);
		dv_user(DVU_RET, cur_round, api, (unsigned long long)it->ticket); break;
	case API_BARRIER_ASYNC: it = new_item(1, thr, idx); dv_user(DVU_CALL, cur_round, api, (unsigned long long)it->ticket);
		dispatch_barrier_async_f(cur_q, it, work); dv_user(DVU_RET, cur_round, api, (unsigned long long)it->ticket); break;
	case API_BARRIER_SYNC: it = new_item(1, thr, idx); dv_user(DVU_CALL, cur_round, api, (unsigned long long)it->ticket);
		dispatch_barrier_sync_f(cur_q, it, work);
		if (atomic_load(&it->runs) != 1) atomic_fetch_add(&syncret_err, 1);
		dv_user(DVU_RET, cur_round, api, (unsigned long long)it->ticket); break;
	default: { int n = 2 + (int)((r >> 50) % 5); apply_ctx_t c; item_t *first = NULL;
		// tickets of one apply are consecutive: reserve them under a tiny lock-free loop
		int k0 = atomic_fetch_add(&next_ticket, n);
		if (k0 + n >= MAXITEMS) { fprintf(stderr, "too many items\n"); exit(2); }
		for (int i = 0; i < n; i++) { item_t *x = &items[k0 + i]; x->round = cur_round; x->ticket = k0 + i; x->kind = 2; x->thr = thr; x->idx = idx; atomic_store(&x->runs, 0); }
		first = &items[k0]; c.base = first;
		dv_user(DVU_CALL, cur_round, api, (unsigned long long)k0);
		dispatch_apply_f((size_t)n, cur_q, &c, apply_work);
		for (int i = 0; i < n; i++) if (atomic_load(&items[k0 + i].runs) != 1) atomic_fetch_add(&syncret_err, 1);
		dv_user(DVU_RET, cur_round, api, (unsigned long long)k0); break; }
	}
}

typedef struct { int thr, n; uint64_t rng; int profile; } targ_t;
static void *client(void *a) {
	targ_t *t = (targ_t *)a; uint64_t r = t->rng;
	pthread_barrier_wait(&bar);
	for (int i = 0; i < t->n; i++) {
		r = r * 6364136223846793005ull + 1442695040888963407ull;
		unsigned m = (unsigned)(r >> 33) % 100; int api;
		// profiles: 0 balanced, 1 reader-heavy with rare barriers, 2 barrier-heavy, 3 sync-only (fast paths and waiters)
		switch (t->profile) {
		case 1: api = m < 45 ? API_ASYNC : m < 85 ? API_SYNC : m < 91 ? API_BARRIER_ASYNC : m < 96 ? API_BARRIER_SYNC : API_APPLY; break;
		case 2: api = m < 20 ? API_ASYNC : m < 40 ? API_SYNC : m < 70 ? API_BARRIER_ASYNC : m < 97 ? API_BARRIER_SYNC : API_APPLY; break;
		case 3: api = m < 70 ? API_SYNC : API_BARRIER_SYNC; break;
		default: api = m < 30 ? API_ASYNC : m < 58 ? API_SYNC : m < 76 ? API_BARRIER_ASYNC : m < 94 ? API_BARRIER_SYNC : API_APPLY; break;
		}
		unsigned pause = (unsigned)(r >> 41) % 16;
		if (pause == 0) { int spins = 0; while (atomic_load(&ran) < atomic_load(&next_ticket) && spins++ < 400) sched_yield(); }
		else if (pause < 3) usleep((useconds_t)((r >> 45) % 40));
		submit(api, t->thr, i, r);
	}
	return NULL;
}

static uint64_t init_state_of(dispatch_lane_t dl) {
	return DISPATCH_QUEUE_STATE_INIT_VALUE(dl->dq_width) | (*(volatile uint64_t *)&dl->dq_state & DISPATCH_QUEUE_ROLE_MASK);
}
static int wait_idle(dispatch_lane_t dl, int total) {
	// progress-based: gives up only when neither the run counter nor dq_state nor the list tail moved for 20 s
	int last_ran = -1; uint64_t last_st = 0; void *last_tail = NULL; struct timespec t0, t1; clock_gettime(CLOCK_MONOTONIC, &t0);
	for (;;) {
		uint64_t st = *(volatile uint64_t *)&dl->dq_state; void *tl = (void *)dl->dq_items_tail; int rn = atomic_load(&ran);
		if (rn >= total && st == init_state_of(dl) && tl == NULL) return 1;
		if (rn != last_ran || st != last_st || tl != last_tail) { last_ran = rn; last_st = st; last_tail = tl; clock_gettime(CLOCK_MONOTONIC, &t0); }
		else { clock_gettime(CLOCK_MONOTONIC, &t1); if (t1.tv_sec - t0.tv_sec >= 20) return 0; }
		usleep(50);
	}
}
static void end_line(int rounds_done) {     // lets the checker see a truncated output
	size_t n = 0; pthread_mutex_lock(&dv_mu); for (dv_thr_t *t = dv_threads; t; t = t->next) n += t->n; pthread_mutex_unlock(&dv_mu);
	printf("END %d %zu\n", rounds_done, n);
}

// fixed corpus: the width-field overflow found with the model (fixed by /repo commit "fix: sync readers over-committing ...")
// a barrier holds the queue, W asyncs and `nsync` sync waiters queue up behind it, then another barrier
static dispatch_semaphore_t gate;
static void gate_item(void *ctx) { item_t *it = (item_t *)ctx;
	dv_user(DVU_CALLOUT_BEGIN, it->round, (unsigned long long)it->ticket, 1); atomic_fetch_add(&it->runs, 1);
	atomic_fetch_add(&barriers_in, 1); dispatch_semaphore_wait(gate, DISPATCH_TIME_FOREVER); atomic_fetch_sub(&barriers_in, 1);
	atomic_fetch_add(&ran, 1); dv_user(DVU_CALLOUT_END, it->round, (unsigned long long)it->ticket, 1); }
static void *sync_client(void *a) { item_t *it = (item_t *)a; dv_user(DVU_CALL, cur_round, API_SYNC, (unsigned long long)it->ticket);
	dispatch_sync_f(cur_q, it, work); dv_user(DVU_RET, cur_round, API_SYNC, (unsigned long long)it->ticket); return NULL; }
static int scn_overflow(int nasync, int nsync) {
	gate = dispatch_semaphore_create(0);
	item_t *g = new_item(1, 0, 0); dispatch_barrier_async_f(cur_q, g, gate_item);
	for (int k = 0; k < 2000 && !atomic_load(&g->runs); k++) usleep(100);
	for (int i = 0; i < nasync; i++) { item_t *it = new_item(0, 0, i); dispatch_async_f(cur_q, it, work); }
	pthread_t th[16]; if (nsync > 16) nsync = 16;
	for (int i = 0; i < nsync; i++) { item_t *it = new_item(0, 1 + i, 0); pthread_create(&th[i], NULL, sync_client, it); usleep(20000); }
	usleep(100000);
	item_t *b = new_item(1, 0, 1); dispatch_barrier_async_f(cur_q, b, work);
	dispatch_semaphore_signal(gate);
	for (int i = 0; i < nsync; i++) pthread_join(th[i], NULL);
	return atomic_load(&next_ticket);
}

// watchdog: a lost wakeup or a leaked width leaves a client blocked for ever; report the round as stuck and dump what was recorded
static dispatch_lane_t wd_dl; static uint64_t wd_st0; static int wd_n; static const char *wd_scn = "mix"; static _Atomic int wd_on;
static void *watchdog(void *a) { (void)a;
	int last = -1, still = 0;
	for (;;) {
		sleep(1);
		if (!atomic_load(&wd_on)) { still = 0; last = -1; continue; }
		int now = atomic_load(&ran) * 7 + atomic_load(&next_ticket) * 3 + cur_round * 1000003 +
				(int)((*(volatile uint64_t *)&wd_dl->dq_state >> 31) * 2654435761u);   // any progress: items, submissions, the word
		if (now != last) { last = now; still = 0; continue; }
		if (++still < 40) continue;       // 40 s without any progress
		atomic_store(&dv_enabled, 0);
		int total = atomic_load(&next_ticket), nran = 0, bad = 0;
		for (int k = 0; k < total; k++) { int x = atomic_load(&items[k].runs); nran += x; if (x != 1) bad++; }
		printf("R %d %d %d %d %d %" PRIu64 " %" PRIu64 " %d %d %d %d %d %s\n", cur_round, (int)wd_dl->dq_width, wd_n, total, nran, wd_st0,
				*(volatile uint64_t *)&wd_dl->dq_state, 0, atomic_load(&overlap_err), bad, atomic_load(&syncret_err),
				atomic_load(&maxreaders), wd_scn);
		dv_dump(stdout); end_line(cur_round + 1); fflush(stdout); _exit(0);
	}
	return NULL;
}

int main(int argc, char **argv) {
	uint64_t seed = argc > 1 ? strtoull(argv[1], 0, 10) : 1; int rounds = argc > 2 ? atoi(argv[2]) : 8;
	int permille = argc > 3 ? atoi(argv[3]) : 200; int scale = argc > 4 ? atoi(argv[4]) : 1;
	const char *scn = argc > 5 ? argv[5] : "mix";
	if (scale < 1) scale = 1;
	items = (item_t *)calloc(MAXITEMS, sizeof(item_t));
	off_state = offsetof(struct dispatch_lane_s, dq_state);
	printf("O %zu %zu %zu %zu\n", sizeof(struct dispatch_lane_s), off_state,
			offsetof(struct dispatch_lane_s, dq_items_tail), offsetof(struct dispatch_lane_s, dq_items_head));
	dv_install(seed, permille);
	_dispatch_verif_cb = cl_cb;
	wd_scn = scn; { pthread_t wt; pthread_create(&wt, NULL, watchdog, NULL); }
	uint64_t r = seed * 6364136223846793005ull + 1442695040888963407ull;
	static const long WIDTHS[] = { 0, 2, 3, 4, 8, 2, 0, 5 };
	int rounds_done = 0;
	for (int i = 0; i < rounds; i++) {
		r = r * 6364136223846793005ull + 1442695040888963407ull;
		int overflow = !strcmp(scn, "overflow");
		long w = overflow ? 0 : WIDTHS[(r >> 33) % (sizeof WIDTHS / sizeof *WIDTHS)];
		char lbl[32]; snprintf(lbl, sizeof lbl, "cl%d", i);
		dispatch_queue_t q = dispatch_queue_create(lbl, DISPATCH_QUEUE_CONCURRENT);
		dispatch_lane_t dl = upcast(q)._dl;
		if (w) { dispatch_queue_set_width(q, w);        // idle queue: applied at once by the barrier trysync
			for (int k = 0; k < 20000 && (dl->dq_width != (uint16_t)w || *(volatile uint64_t *)&dl->dq_state != init_state_of(dl)); k++) usleep(50); }
		cur_q = q; cur_round = i; round_rng = r;
		atomic_store(&next_ticket, 0); atomic_store(&ran, 0); atomic_store(&readers_in, 0); atomic_store(&barriers_in, 0);
		atomic_store(&maxreaders, 0); atomic_store(&overlap_err, 0); atomic_store(&order_err, 0); atomic_store(&syncret_err, 0);
		uint64_t st0 = *(volatile uint64_t *)&dl->dq_state;
		q_lo = (uintptr_t)dl; q_hi = q_lo + sizeof(struct dispatch_lane_s);
		dv_untrack_all();
		dv_track(dl, sizeof(struct dispatch_lane_s), i);
		int n = 0, total;
		wd_dl = dl; wd_st0 = st0; wd_n = 0; atomic_store(&wd_on, 1);
		if (overflow) {
			total = scn_overflow((int)dl->dq_width - (int)((r >> 40) % 3), 3 + (int)((r >> 44) % 4));
		} else {
			n = 2 + (int)((r >> 36) % (MAXT - 1)); wd_n = n;
			pthread_t th[MAXT]; targ_t ta[MAXT];
			pthread_barrier_init(&bar, NULL, (unsigned)n);
			int profile = (int)((r >> 48) % 4);
			for (int k = 0; k < n; k++) {
				ta[k].thr = k; ta[k].n = (20 + (int)((r >> (k * 3 + 5)) % 40)) * scale;
				ta[k].rng = r ^ ((uint64_t)(k + 1) * 0x9E3779B97F4A7C15ull); ta[k].profile = profile;
				pthread_create(&th[k], NULL, client, &ta[k]);
			}
			for (int k = 0; k < n; k++) pthread_join(th[k], NULL);
			pthread_barrier_destroy(&bar);
			item_t *last = new_item(1, 0, -1);
			dv_user(DVU_CALL, cur_round, API_BARRIER_SYNC, (unsigned long long)last->ticket);
			dispatch_barrier_sync_f(q, last, work);
			dv_user(DVU_RET, cur_round, API_BARRIER_SYNC, (unsigned long long)last->ticket);
			total = atomic_load(&next_ticket);
		}
		int idle = wait_idle(dl, total);
		atomic_store(&wd_on, 0);
		usleep(300);
		uint64_t st1 = *(volatile uint64_t *)&dl->dq_state;
		int nran = 0, bad = 0; for (int k = 0; k < total; k++) { int x = atomic_load(&items[k].runs); nran += x; if (x != 1) bad++; }
		printf("R %d %d %d %d %d %" PRIu64 " %" PRIu64 " %d %d %d %d %d %s\n", i, (int)dl->dq_width, n, total, nran, st0, st1, idle,
				atomic_load(&overlap_err), bad, atomic_load(&syncret_err), atomic_load(&maxreaders), scn);
		fflush(stdout); rounds_done = i + 1;
		if (!idle) break;
	}
	atomic_store(&dv_enabled, 0);
	dv_dump(stdout);
	end_line(rounds_done);
	return 0;
}
