// C05 (synchronous hand-off) stress client + recorder + API-level oracle.
// Many threads call dispatch_sync_f / dispatch_barrier_sync_f / dispatch_async_and_wait_f on ONE serial queue that
// feeder threads keep busy with dispatch_async_f items, so that the synchronous calls take the slow path (the caller's
// dispatch_sync_context_s is pushed as an item, the caller parks on its thread event, the drainer hands the drain lock
// over / runs the item itself for async_and_wait).  Schedule perturbation inside the library's atomic windows.
// Recorded (DISPATCH_VERIF hook, harness/dv_record.h): every atomic operation on the queue's dq_state (obj 1),
// dq_items_tail (obj 2), dq_items_head (obj 3) and on each client thread's stack (obj = gettid of that thread: the
// thread event dte_value of the dispatch_sync_context_s that lives on the waiter's stack, plus the do_next link of that
// context), and the harness-level marks CALL / RET / CALLOUT_BEGIN / CALLOUT_END.
// Order oracle (C02, any mix of submission kinds): client threads also submit dispatch_async_f items between their
// synchronous calls; an item must not start before the previous item submitted by the same thread has finished, and
// (post-hoc, on the stamps) before any item whose submission call had returned before its own call began has finished.
// mix == 10: the fixed overtake schedule of libdispatch 43b9c73 (see harness/c04_overtake.c), recorded: a worker is held
// at the load of drain_try_unlock, an enqueuer is held after its tail exchange, the main thread submits x2 with
// dispatch_async_f and then calls dispatch_sync_f: with the tail test in the fast path the call queues behind x2.
// usage: c05_sync <seed> <calls_per_thread> <perturb_permille> <nclients> <nfeeders> [mix]
// output: "T <thread#> <gettid> <role>" lines, "FAIL <what>" lines of the API-level oracle, "S <stats>", then the dump.
#include "internal.h"
#include <signal.h>
#include <errno.h>
#include "dv_record.h"

enum { K_SYNC = 1, K_BSYNC = 2, K_AAW = 3, K_ASYNC = 4 };
#define MAXT 24
#define NPAY 6

typedef struct item {
	int kind, serial; long owner;                 // owner = gettid of the submitting thread
	_Atomic int runs; _Atomic uint64_t t_begin, t_end; uint64_t t_submit, t_ret;
	uint64_t pay[NPAY], paysum;                   // written (plain) by the submitter before submission
	uint64_t out[NPAY], outsum;                   // written (plain) by the item, read by the submitter after return
	long ran_on;
	struct item *prev;                            // the item submitted just before by the same thread (any kind)
} item_t;
#define MAXITEMS (1 << 20)
static item_t *all_items[MAXITEMS];

static dispatch_queue_t q;
static _Atomic uint64_t stamp; static uint64_t now(void) { return atomic_fetch_add(&stamp, 1) + 1; }
static _Atomic int inside;                       // items of q currently inside their function
static struct { uint64_t n, hash; } chain;       // plain record handed from item to item on the serial queue
static _Atomic int nfail; static _Atomic long n_items, n_async_done, n_async_sub, n_sync_done, n_feed;
static _Atomic long st_self_run, st_drainer_run, st_overlap, st_early, st_chain, st_pay, st_order;
static int ncalls, nclients, nfeeders, mix;
static volatile int stop_feed;

#define FAIL(...) do { printf("FAIL "); printf(__VA_ARGS__); printf("\n"); fflush(stdout); atomic_fetch_add(&nfail, 1); } while (0)
static inline uint64_t mixh(uint64_t x) { x ^= x >> 33; x *= 0xff51afd7ed558ccdull; x ^= x >> 33; x *= 0xc4ceb9fe1a85ec53ull; x ^= x >> 33; return x; }
static inline uint64_t xs(uint64_t *s) { uint64_t x = *s; x ^= x << 13; x ^= x >> 7; x ^= x << 17; return *s = x; }

static void item_fn(void *ctx) {
	item_t *it = (item_t *)ctx; long me = (long)syscall(SYS_gettid);
	dv_user(DVU_CALLOUT_BEGIN, it->kind, (unsigned long long)it->serial, (unsigned long long)(it->kind == K_ASYNC ? 0 : it->owner));
	atomic_store(&it->t_begin, now());
	int in = atomic_fetch_add(&inside, 1);
	if (in != 0) { atomic_fetch_add(&st_overlap, 1); FAIL("overlap: item %d (kind %d) started while %d other item(s) of the serial queue were running", it->serial, it->kind, in); }
	if (atomic_fetch_add(&it->runs, 1) != 0) FAIL("item %d (kind %d) ran more than once", it->serial, it->kind);
	if (it->prev && atomic_load(&it->prev->t_end) == 0) { atomic_fetch_add(&st_order, 1);
		FAIL("order: item %d (kind %d) started before item %d (kind %d), submitted earlier by the same thread (call returned), had finished",
			it->serial, it->kind, it->prev->serial, it->prev->kind); }
	it->ran_on = me;
	// memory written before submission is visible to the item
	uint64_t s = 0; for (int i = 0; i < NPAY; i++) s = mixh(s ^ it->pay[i]);
	if (s != it->paysum) { atomic_fetch_add(&st_pay, 1); FAIL("item %d (kind %d) saw a stale submission payload", it->serial, it->kind); }
	// memory written by the previous item of the serial queue is visible to this one
	uint64_t n = chain.n, h = chain.hash;
	if (h != mixh(n * 0x9E3779B97F4A7C15ull + 7)) { atomic_fetch_add(&st_chain, 1); FAIL("item %d (kind %d) saw a torn/stale chain record n=%llu", it->serial, it->kind, (unsigned long long)n); }
	if ((it->serial & 7) == 0) { struct timespec ts = {0, 20000 + (long)(mixh((uint64_t)it->serial) % 60000)}; nanosleep(&ts, NULL); }
	else if ((it->serial & 7) == 1) sched_yield();
	chain.n = n + 1; chain.hash = mixh((n + 1) * 0x9E3779B97F4A7C15ull + 7);
	uint64_t o = 0; for (int i = 0; i < NPAY; i++) { it->out[i] = mixh(it->pay[i] + (uint64_t)i + n); o = mixh(o ^ it->out[i]); }
	it->outsum = o;
	atomic_fetch_sub(&inside, 1);
	atomic_store(&it->t_end, now());
	if (it->kind == K_ASYNC) atomic_fetch_add(&n_async_done, 1);
	else if (me == it->owner) atomic_fetch_add(&st_self_run, 1); else atomic_fetch_add(&st_drainer_run, 1);
	dv_user(DVU_CALLOUT_END, it->kind, (unsigned long long)it->serial, (unsigned long long)(it->kind == K_ASYNC ? 0 : it->owner));
}

static item_t *mk_item(int kind, uint64_t *rng, long me) {
	item_t *it = (item_t *)calloc(1, sizeof *it);
	it->kind = kind; it->serial = (int)atomic_fetch_add(&n_items, 1); it->owner = me;
	if (it->serial < MAXITEMS) all_items[it->serial] = it;
	uint64_t s = 0; for (int i = 0; i < NPAY; i++) { it->pay[i] = xs(rng); s = mixh(s ^ it->pay[i]); }
	it->paysum = s;
	return it;
}

typedef struct { int idx, role; uint64_t rng; } targ_t;
static pthread_barrier_t bar;

static void track_my_stack(long me) {
	pthread_attr_t a; void *lo; size_t sz;
	pthread_getattr_np(pthread_self(), &a); pthread_attr_getstack(&a, &lo, &sz); pthread_attr_destroy(&a);
	dv_track(lo, sz, (int)me);
}

static void submit_async(item_t *it) {
	atomic_fetch_add(&n_async_sub, 1);
	it->t_submit = now();
	dv_user(DVU_CALL, K_ASYNC, (unsigned long long)it->serial, 0);
	dispatch_async_f(q, it, item_fn);
	dv_user(DVU_RET, K_ASYNC, (unsigned long long)it->serial, 0);
	it->t_ret = now();
}

static void *client(void *arg) {
	targ_t *t = (targ_t *)arg; long me = (long)syscall(SYS_gettid);
	static pthread_mutex_t mu = PTHREAD_MUTEX_INITIALIZER;
	pthread_mutex_lock(&mu); track_my_stack(me); printf("T %d %ld %s\n", t->idx, me, t->role ? "feeder" : "client"); pthread_mutex_unlock(&mu);
	pthread_barrier_wait(&bar);
	item_t *last = NULL;
	if (t->role) {   // feeder: keeps the queue busy with asynchronous items, in bursts
		while (!stop_feed) {
			int burst = 1 + (int)(xs(&t->rng) % 6);
			for (int b = 0; b < burst; b++) {
				item_t *it = mk_item(K_ASYNC, &t->rng, me);
				it->prev = last; last = it;
				submit_async(it);
			}
			atomic_fetch_add(&n_feed, burst);
			// bounded backlog, and bounded work per synchronous call (the trace size must not depend on how slow the machine is)
			while ((atomic_load(&n_async_sub) - atomic_load(&n_async_done) > 40 || atomic_load(&n_feed) > 10 * (atomic_load(&n_sync_done) + 4)) && !stop_feed) usleep(50);
			if (xs(&t->rng) & 1) usleep((useconds_t)(xs(&t->rng) % 150));
		}
		return NULL;
	}
	for (int c = 0; c < ncalls; c++) {
		uint64_t r = xs(&t->rng);
		int kind = mix ? mix : 1 + (int)(r % 3);
		for (int na = (t->idx & 1) ? (int)((r >> 24) % 4) - 1 : 0; na > 0; na--) {   // odd clients: 0..2 asynchronous items of this thread ahead of the call
			item_t *ia = mk_item(K_ASYNC, &t->rng, me); ia->prev = last; last = ia; submit_async(ia);
		}
		item_t *it = mk_item(kind, &t->rng, me);
		it->prev = last; last = it;
		if ((r >> 8) % 5 == 0) usleep((useconds_t)((r >> 16) % 120));
		it->t_submit = now();
		dv_user(DVU_CALL, kind, (unsigned long long)it->serial, 0);
		if (kind == K_SYNC) dispatch_sync_f(q, it, item_fn);
		else if (kind == K_BSYNC) dispatch_barrier_sync_f(q, it, item_fn);
		else dispatch_async_and_wait_f(q, it, item_fn);
		dv_user(DVU_RET, kind, (unsigned long long)it->serial, 0);
		it->t_ret = now();
		atomic_fetch_add(&n_sync_done, 1);
		// the call returns only after its item has finished, exactly once
		uint64_t te = atomic_load(&it->t_end);
		if (atomic_load(&it->runs) != 1) FAIL("%s of item %d returned with run count %d", kind == K_AAW ? "dispatch_async_and_wait" : "dispatch_sync", it->serial, atomic_load(&it->runs));
		if (te == 0 || te > it->t_ret) { atomic_fetch_add(&st_early, 1); FAIL("synchronous call (kind %d) of item %d returned (stamp %llu) before its item finished (end stamp %llu)", kind, it->serial, (unsigned long long)it->t_ret, (unsigned long long)te); }
		else {
			// memory written by the item is visible after the synchronous submission returns
			uint64_t o = 0; for (int i = 0; i < NPAY; i++) o = mixh(o ^ it->out[i]);
			if (o != it->outsum) { atomic_fetch_add(&st_pay, 1); FAIL("caller of item %d (kind %d) saw a stale result payload after return", it->serial, kind); }
		}
	}
	return NULL;
}

// every asynchronous item has run -- or none has for 10 s (progress based: a slow machine is not a failure)
static void wait_async_done(void) {
	long last = -1; int idle = 0;
	while (atomic_load(&n_async_done) < atomic_load(&n_async_sub)) {
		long d = atomic_load(&n_async_done);
		if (d != last) { last = d; idle = 0; } else if (++idle > 40000) break;
		usleep(250);
	}
}
// the last drainer has given the queue back: owner bits and ENQUEUED clear (up to 60 s), then time for its hook record
static uint64_t wait_idle_word(dispatch_lane_t dl) {
	uint64_t v = 0;
	for (int i = 0; i < 600000; i++) { v = *(volatile uint64_t *)&dl->dq_state; if ((v & 0x3fffffffull) == 0 && !(v & 0x80000000ull)) break; usleep(100); }
	usleep(200000);
	return v;
}

static void *watchdog(void *a) {
	(void)a; uint64_t last = 0; int idle = 0;
	for (;;) { usleep(250000); uint64_t p = atomic_load(&stamp);
		if (p == last) { if (++idle >= 40) { printf("FAIL STUCK: no progress for 10s: a synchronous call never returned or submitted work never ran\n"); fflush(stdout); dv_dump(stdout); fflush(stdout); _exit(3); } }
		else { idle = 0; last = p; } }
	return NULL;
}

// ---- oracle-only scenario (mix == 9): a queue created active and then retargeted onto a serial queue T; every
// synchronous call on it that goes through the waiter hand-off must still run while T is held, i.e. never overlap
// an item of T (the hand-off decides this from the role bits of dq_state: _dq_state_is_inner_queue)
static _Atomic int inside_T; static _Atomic long rt_items;
static void rt_item(void *ctx) {
	long us = (long)(intptr_t)ctx;
	int in = atomic_fetch_add(&inside_T, 1);
	if (in != 0) { atomic_fetch_add(&st_overlap, 1); FAIL("overlap: an item submitted through a queue targeting serial queue T ran while %d other item(s) of T's hierarchy were running", in); }
	now();
	if (us) { struct timespec ts = {0, us * 1000}; nanosleep(&ts, NULL); }
	atomic_fetch_sub(&inside_T, 1); atomic_fetch_add(&rt_items, 1);
}
static int retarget_scenario(uint64_t seed, int rounds) {
	dispatch_queue_t T = dispatch_queue_create("c05.T", NULL);
	uint64_t r = mixh(seed) | 1;
	for (int i = 0; i < rounds && !atomic_load(&nfail); i++) {
		dispatch_queue_t q2 = dispatch_queue_create("c05.retargeted", NULL);
		dispatch_set_target_queue(q2, T);
		int n = 1 + (int)(xs(&r) % 3);
		for (int k = 0; k < n; k++) {
			dispatch_async_f(q2, (void *)(intptr_t)(100 + xs(&r) % 200), rt_item);
			dispatch_async_f(T, (void *)(intptr_t)(300 + xs(&r) % 900), rt_item);
			if (xs(&r) & 1) dispatch_sync_f(q2, (void *)(intptr_t)(xs(&r) % 50), rt_item);
			else dispatch_barrier_sync_f(q2, (void *)(intptr_t)(xs(&r) % 50), rt_item);
		}
		dispatch_sync_f(q2, (void *)0, rt_item);
		dispatch_sync_f(T, (void *)0, rt_item);
		dispatch_release(q2);
	}
	printf("S items=%ld async=0 self_run=0 drainer_run=0 overlap=%ld early=0 chain=0 payload=0 final_state=0 fails=%d\n",
			atomic_load(&rt_items), atomic_load(&st_overlap), atomic_load(&nfail));
	return atomic_load(&nfail) ? 1 : 0;
}

// ---- post-hoc real-time order check on the stamps: if A's call returned before B's call began, A finished before B started
typedef struct { uint64_t ret, end; int serial; } rt_t;
static int rt_cmp(const void *a, const void *b) { uint64_t x = ((const rt_t *)a)->ret, y = ((const rt_t *)b)->ret; return x < y ? -1 : x > y; }
static void order_check(void) {
	long n = atomic_load(&n_items); if (n > MAXITEMS) n = MAXITEMS;
	rt_t *v = (rt_t *)calloc((size_t)n + 1, sizeof *v); long m = 0, judged = 0; int shown = 0;
	for (long i = 0; i < n; i++) { item_t *a = all_items[i]; if (a && a->t_ret) { v[m].ret = a->t_ret; v[m].end = atomic_load(&a->t_end) ? atomic_load(&a->t_end) : UINT64_MAX; v[m].serial = a->serial; m++; } }
	qsort(v, (size_t)m, sizeof *v, rt_cmp);
	for (long i = 1; i < m; i++) if (v[i].end < v[i - 1].end) { v[i].end = v[i - 1].end; v[i].serial = v[i - 1].serial; }   // prefix maximum of the end stamps
	for (long i = 0; i < n; i++) { item_t *b = all_items[i]; if (!b || !atomic_load(&b->t_begin)) continue;
		long lo = 0, hi = m; while (lo < hi) { long mid = (lo + hi) / 2; if (v[mid].ret < b->t_submit) lo = mid + 1; else hi = mid; }
		if (lo == 0) continue;
		judged++;
		if (v[lo - 1].end > atomic_load(&b->t_begin)) { atomic_fetch_add(&st_order, 1);
			if (shown++ < 3) FAIL("order: item %d (kind %d) started (stamp %llu) although item %d, whose submission call had returned before the call of item %d began, had not finished",
				b->serial, b->kind, (unsigned long long)atomic_load(&b->t_begin), v[lo - 1].serial, b->serial); } }
	printf("O judged=%ld returned=%ld violations=%ld\n", judged, m, atomic_load(&st_order));
	free(v);
}

// ---- mix == 10: the fixed overtake schedule (two threads are held inside the hook at one atomic operation each) ----
static dispatch_lane_t ot_dl; static pthread_t ot_u, ot_o; static _Atomic int o_known, z0_go, z0_done, o_held, release_o, u_held, release_u;
static void ot_cb(const volatile void *addr, unsigned size, int kind, int order, unsigned long long a, unsigned long long b,
		int ok, const char *file, int line) {
	dv_cb(addr, size, kind, order, a, b, ok, file, line);
	if (!ot_dl) return;
	if ((uintptr_t)addr == (uintptr_t)&ot_dl->dq_items_tail && kind != 1 && atomic_load(&o_held) && pthread_equal(pthread_self(), ot_u)) {
		if (atomic_exchange(&u_held, 1)) return;
		for (int k = 0; k < 1200000 && !atomic_load(&release_u); k++) usleep(50);
	} else if ((uintptr_t)addr == (uintptr_t)&ot_dl->dq_state && kind == 1 && atomic_load(&o_known) && atomic_load(&z0_done) &&
			pthread_equal(pthread_self(), ot_o)) {
		if (atomic_exchange(&o_held, 1)) return;
		for (int k = 0; k < 1200000 && !atomic_load(&release_o); k++) usleep(50);
	}
}
static void ot_z0(void *c) {
	(void)c; dv_user(DVU_CALLOUT_BEGIN, K_ASYNC, 0, 0); now();
	ot_o = pthread_self(); atomic_store(&o_known, 1);
	for (int k = 0; k < 1200000 && !atomic_load(&z0_go); k++) usleep(50);
	dv_user(DVU_CALLOUT_END, K_ASYNC, 0, 0); atomic_store(&z0_done, 1);
}
static void *ot_u_main(void *a) {
	uint64_t rng = 12345; long me = (long)syscall(SYS_gettid); (void)a;
	printf("T 1 %ld client\n", me); fflush(stdout);
	item_t *x1 = mk_item(K_ASYNC, &rng, me); submit_async(x1); return NULL;
}
static item_t *volatile ot_b;
// U goes on 300 ms later -- or as soon as b has started (only a library that overtakes gets there: its completion then
// spins on dq_items_head until U has stored it, which would record a million loads)
static void *ot_releaser(void *a) { (void)a;
	for (int k = 0; k < 6000; k++) { item_t *b = ot_b; if (b && atomic_load(&b->t_begin)) break; usleep(50); }
	atomic_store(&release_u, 1); return NULL; }
static int overtake_scenario(uint64_t seed) {
	uint64_t rng = mixh(seed) | 1; long me = (long)syscall(SYS_gettid);
	chain.n = 0; chain.hash = mixh(7);
	q = dispatch_queue_create("c05.overtake", NULL);
	dispatch_lane_t dl = (dispatch_lane_t)q; uint64_t idle = dl->dq_state;
	printf("Q state=%llu width=%u\n", (unsigned long long)dl->dq_state, (unsigned)dl->dq_width);
	printf("T 0 %ld client\n", me);
	dv_track(&dl->dq_state, sizeof(uint64_t), 1); dv_track(&dl->dq_items_tail, sizeof(void *), 2); dv_track(&dl->dq_items_head, sizeof(void *), 3);
	track_my_stack(me);
	dv_install(seed, 0); ot_dl = dl; _dispatch_verif_cb = ot_cb;
	pthread_t wd; pthread_create(&wd, NULL, watchdog, NULL);
	// z0: a worker takes the drain lock, runs it, finds the list empty and is held at the load of drain_try_unlock
	dv_user(DVU_CALL, K_ASYNC, 0, 0); dispatch_async_f(q, NULL, ot_z0); dv_user(DVU_RET, K_ASYNC, 0, 0);
	for (int k = 0; k < 600000 && !atomic_load(&o_known); k++) usleep(50);
	atomic_store(&z0_go, 1);
	for (int k = 0; k < 600000 && !atomic_load(&o_held); k++) usleep(50);
	// U: dispatch_async(x1), held after its exchange of dq_items_tail (it owes the wakeup)
	pthread_create(&ot_u, NULL, ot_u_main, NULL);
	for (int k = 0; k < 600000 && !atomic_load(&u_held); k++) usleep(50);
	// V (this thread): dispatch_async(x2): the list is not empty and no override is needed: no wakeup; the call returns
	item_t *x2 = mk_item(K_ASYNC, &rng, me); submit_async(x2);
	atomic_store(&release_o, 1);
	int is_idle = 0; for (int k = 0; k < 200000 && !(is_idle = (*(volatile uint64_t *)&dl->dq_state == idle)); k++) usleep(50);
	int reached = atomic_load(&o_held) && atomic_load(&u_held) && is_idle;
	// V: dispatch_sync(b): must not run before x2
	item_t *b = mk_item(K_SYNC, &rng, me); b->prev = x2; ot_b = b;
	pthread_t rt; pthread_create(&rt, NULL, ot_releaser, NULL);
	b->t_submit = now();
	dv_user(DVU_CALL, K_SYNC, (unsigned long long)b->serial, 0);
	dispatch_sync_f(q, b, item_fn);
	dv_user(DVU_RET, K_SYNC, (unsigned long long)b->serial, 0);
	b->t_ret = now();
	int u_released_at_b = atomic_load(&release_u);
	if (atomic_load(&b->runs) != 1) FAIL("dispatch_sync of item %d returned with run count %d", b->serial, atomic_load(&b->runs));
	pthread_join(rt, NULL); pthread_join(ot_u, NULL);
	wait_async_done();
	if (atomic_load(&n_async_done) != atomic_load(&n_async_sub)) FAIL("%ld of %ld asynchronous items never ran", atomic_load(&n_async_sub) - atomic_load(&n_async_done), atomic_load(&n_async_sub));
	uint64_t fin = wait_idle_word(dl);
	atomic_store(&dv_enabled, 0);
	order_check();
	printf("OT schedule_reached=%d o_held=%d u_held=%d idle_word_with_items=%d u_released_when_sync_returned=%d\n", reached,
			atomic_load(&o_held), atomic_load(&u_held), is_idle, u_released_at_b);
	printf("S items=%ld async=%ld self_run=%ld drainer_run=%ld overlap=%ld early=%ld chain=%ld payload=%ld final_state=%llu fails=%d\n",
			atomic_load(&n_items), atomic_load(&n_async_sub), atomic_load(&st_self_run), atomic_load(&st_drainer_run),
			atomic_load(&st_overlap), atomic_load(&st_early), atomic_load(&st_chain), atomic_load(&st_pay), (unsigned long long)fin, atomic_load(&nfail));
	dv_dump(stdout);
	return atomic_load(&nfail) ? 1 : 0;
}

int main(int argc, char **argv) {
	uint64_t seed = argc > 1 ? strtoull(argv[1], 0, 10) : 1; ncalls = argc > 2 ? atoi(argv[2]) : 100;
	int permille = argc > 3 ? atoi(argv[3]) : 150; nclients = argc > 4 ? atoi(argv[4]) : 6; nfeeders = argc > 5 ? atoi(argv[5]) : 1;
	mix = argc > 6 ? atoi(argv[6]) : 0;
	if (nclients + nfeeders > MAXT) return 2;
	if (mix == 10) return overtake_scenario(seed);
	if (mix == 9) { dv_install(seed, permille); pthread_t wd0; pthread_create(&wd0, NULL, watchdog, NULL); return retarget_scenario(seed, ncalls); }
	chain.n = 0; chain.hash = mixh(7);
	q = dispatch_queue_create("c05.serial", NULL);
	dispatch_lane_t dl = (dispatch_lane_t)q;
	printf("Q state=%llu width=%u\n", (unsigned long long)dl->dq_state, (unsigned)dl->dq_width);
	dv_track(&dl->dq_state, sizeof(uint64_t), 1);
	dv_track(&dl->dq_items_tail, sizeof(void *), 2);
	dv_track(&dl->dq_items_head, sizeof(void *), 3);
	dv_install(seed, permille);
	pthread_t wd; pthread_create(&wd, NULL, watchdog, NULL);
	pthread_t th[MAXT]; targ_t ta[MAXT]; int n = nclients + nfeeders;
	pthread_barrier_init(&bar, NULL, (unsigned)n);
	for (int k = 0; k < n; k++) { ta[k].idx = k; ta[k].role = k >= nclients; ta[k].rng = mixh(seed * 1315423911ull + (uint64_t)k * 0x9E3779B97F4A7C15ull) | 1;
		pthread_create(&th[k], NULL, client, &ta[k]); }
	for (int k = 0; k < nclients; k++) pthread_join(th[k], NULL);
	stop_feed = 1;
	for (int k = nclients; k < n; k++) pthread_join(th[k], NULL);
	// quiesce: every asynchronous item has run and the last drainer has given the queue back
	wait_async_done();
	if (atomic_load(&n_async_done) != atomic_load(&n_async_sub)) FAIL("%ld of %ld asynchronous items never ran", atomic_load(&n_async_sub) - atomic_load(&n_async_done), atomic_load(&n_async_sub));
	uint64_t idle = wait_idle_word(dl);
	atomic_store(&dv_enabled, 0);
	order_check();
	if (chain.n != (uint64_t)atomic_load(&n_items)) FAIL("chain count %llu differs from the number of items %ld", (unsigned long long)chain.n, atomic_load(&n_items));
	printf("S items=%ld async=%ld self_run=%ld drainer_run=%ld overlap=%ld early=%ld chain=%ld payload=%ld final_state=%llu fails=%d\n",
			atomic_load(&n_items), atomic_load(&n_async_sub), atomic_load(&st_self_run), atomic_load(&st_drainer_run),
			atomic_load(&st_overlap), atomic_load(&st_early), atomic_load(&st_chain), atomic_load(&st_pay), (unsigned long long)idle, atomic_load(&nfail));
	dv_dump(stdout);
	return atomic_load(&nfail) ? 1 : 0;
}
