// C18 correspondence driver (white-box: includes the library's internal header, links its objects).
//   A            -> for the NULL attribute (-1) and every index of _dispatch_queue_attrs one line:
//                   a | to_info fields | results (as indices) of each constructor on a grid of arguments |
//                   what a queue created from it (default target) reports
//   G <prio> <flags> -> 4096 + index of the returned root queue, or 0 for NULL
#include "internal.h"
#include <inttypes.h>

static long aidx(dispatch_queue_attr_t a) {
	if (!a) return -1;
	return (long)((struct dispatch_queue_attr_s *)a - (struct dispatch_queue_attr_s *)_dispatch_queue_attrs);
}
static const unsigned CLS[] = {0x21, 0x19, 0x15, 0x11, 0x09, 0x05, 0x00, 0x01, 0x22, 0x15 + 256};
static const int RP[] = {0, -1, -7, -15, -16, 1};

int main(void) {
	char line[256];
	while (fgets(line, sizeof line, stdin)) {
		if (line[0] == 'A') {
			for (long a = -1; a < (long)DISPATCH_QUEUE_ATTR_COUNT; a++) {
				dispatch_queue_attr_t dqa = a < 0 ? NULL : (dispatch_queue_attr_t)&_dispatch_queue_attrs[a];
				dispatch_queue_attr_info_t i = _dispatch_queue_attr_to_info(dqa);
				printf("%ld %d %d %d %d %d %d", a, (int)i.dqai_qos, (int)i.dqai_relpri, (int)i.dqai_overcommit,
						(int)i.dqai_autorelease_frequency, (int)i.dqai_concurrent, (int)i.dqai_inactive);
				printf(" %ld %ld %ld", aidx(dispatch_queue_attr_make_initially_inactive(dqa)),
						aidx(dispatch_queue_attr_make_with_overcommit(dqa, true)),
						aidx(dispatch_queue_attr_make_with_overcommit(dqa, false)));
				for (int f = 0; f < 3; f++) printf(" %ld", aidx(dispatch_queue_attr_make_with_autorelease_frequency(dqa, (dispatch_autorelease_frequency_t)f)));
				for (unsigned c = 0; c < sizeof CLS / sizeof *CLS; c++)
					for (unsigned r = 0; r < sizeof RP / sizeof *RP; r++)
						printf(" %ld", aidx(dispatch_queue_attr_make_with_qos_class(dqa, (dispatch_qos_class_t)CLS[c], RP[r])));
				char lbl[32]; snprintf(lbl, sizeof lbl, "q%ld", a);
				dispatch_queue_t q = dispatch_queue_create(lbl, dqa);
				int rp = 99; unsigned cls = (unsigned)dispatch_queue_get_qos_class(q, &rp);
				uint64_t st = os_atomic_load2o(upcast(q)._dl, dq_state, relaxed);
				printf(" %u %d %u %d %d\n", cls, rp, (unsigned)upcast(q)._dl->dq_width, (int)_dq_state_is_inactive(st),
						strcmp(dispatch_queue_get_label(q), lbl) == 0);
				if (_dq_state_is_inactive(st)) dispatch_activate(q);
				dispatch_release(q);
			}
		} else if (line[0] == 'G') {
			long long p; unsigned long long f;
			sscanf(line + 1, "%lld %llu", &p, &f);
			dispatch_queue_global_t g = dispatch_get_global_queue((intptr_t)p, (uintptr_t)f);
			if (!g) printf("0\n"); else printf("%ld\n", 4096 + (long)(g - _dispatch_root_queues));
		}
		fflush(stdout);
	}
	return 0;
}
