// C20 correspondence driver (public API only: links libdispatch.so, regular or AddressSanitizer build).
// One case per input line:
//     <in_fmt> <out_fmt> <region>,<region>,...      each region hex bytes; "-" alone = the empty data object
//   formats: 0 NONE 1 UTF8 2 UTF16LE 3 UTF16BE 4 UTF_ANY 5 BASE32 6 BASE32HEX 7 BASE64
// The input object is built with dispatch_data_create (one leaf per region) + dispatch_data_create_concat, so
// dispatch_data_apply presents exactly the requested regions to transform.c.
// Output per case:   "B <n>" (case n begun; lets the driver name the case when a sanitizer aborts the process), then
//     "N"                      dispatch_data_create_with_transform returned NULL
//     "S in=.. out=.. back=.." for "R ..." lines (round trip on the returned object; size:hash:region sizes or N)
//     "D <size> <hex|->"       result size as reported by dispatch_data_get_size and its bytes
//                              ("-" when empty; "!" when the size is not believable (> 2^20) and is not touched)
#include <dispatch/dispatch.h>
#define __DISPATCH_INDIRECT__ 1
#include "data_private.h"
#undef __DISPATCH_INDIRECT__
#include <stdio.h>
#include <stdlib.h>
#include <string.h>

#ifndef DISPATCH_DATA_FORMAT_TYPE_NONE
#error data_private.h not reached
#endif

static dispatch_data_format_type_t fmt(int k) {
	switch (k) {
	case 0: return DISPATCH_DATA_FORMAT_TYPE_NONE;
	case 1: return DISPATCH_DATA_FORMAT_TYPE_UTF8;
	case 2: return DISPATCH_DATA_FORMAT_TYPE_UTF16LE;
	case 3: return DISPATCH_DATA_FORMAT_TYPE_UTF16BE;
	case 4: return DISPATCH_DATA_FORMAT_TYPE_UTF_ANY;
	case 5: return DISPATCH_DATA_FORMAT_TYPE_BASE32;
	case 6: return DISPATCH_DATA_FORMAT_TYPE_BASE32HEX;
	case 7: return DISPATCH_DATA_FORMAT_TYPE_BASE64;
	}
	return NULL;
}

static int hexv(int c) {
	if (c >= '0' && c <= '9') return c - '0';
	if (c >= 'a' && c <= 'f') return c - 'a' + 10;
	if (c >= 'A' && c <= 'F') return c - 'A' + 10;
	return -1;
}

static unsigned long long fnv(unsigned long long h, const unsigned char *p, size_t n) {
	for (size_t i = 0; i < n; i++) { h ^= p[i]; h *= 1099511628211ULL; }
	return h;
}

// hash of the bytes of an object, region by region (no flattening: objects of 100 MB and more stay as they are)
static unsigned long long data_hash(dispatch_data_t d) {
	__block unsigned long long h = 1469598103934665603ULL;
	dispatch_data_apply(d, ^bool(dispatch_data_t r, size_t off, const void *b, size_t s) {
		(void)r; (void)off; h = fnv(h, b, s); return true; });
	return h;
}

static void summary(const char *tag, dispatch_data_t d) {
	if (!d) { printf(" %s=N", tag); return; }
	printf(" %s=%zu:%016llx:", tag, dispatch_data_get_size(d), data_hash(d));
	__block int k = 0;
	dispatch_data_apply(d, ^bool(dispatch_data_t r, size_t off, const void *b, size_t s) {
		(void)r; (void)off; (void)b; if (k < 6) printf("%s%zu", k ? "/" : "", s); k++; return true; });
	printf("/n%d", k);
}

int main(void) {
	size_t cap = 1 << 22;
	char *line = malloc(cap);
	unsigned long n = 0;
	while (fgets(line, (int)cap, stdin)) {
		int fi, fo, pos = 0, rt = 0;
		if (line[0] == 'R') {
			// "R <in> <out> regions": transform, then apply the inverse pair to THE RETURNED OBJECT; only sizes,
			// region sizes and hashes are printed (used for regions of tens of megabytes)
			rt = 1;
			if (sscanf(line + 1, "%d %d %n", &fi, &fo, &pos) < 2) continue;
			pos += 1;
		} else if (sscanf(line, "%d %d %n", &fi, &fo, &pos) < 2) continue;
		printf("B %lu\n", n++);
		fflush(stdout);
		dispatch_data_t data = dispatch_data_empty;
		char *p = line + pos;
		while (*p && *p != '\n' && *p != '-' && *p != '\r') {
			// region := <hex prefix> [ "*" <count> ":" <hex pattern> ]   (prefix, then the pattern count times)
			size_t plen = 0, len = 0, rep = 0;
			char *q = p;
			while (hexv(q[0]) >= 0 && hexv(q[1]) >= 0) { q += 2; plen++; }
			char *pat = NULL;
			if (*q == '*') {
				rep = strtoull(q + 1, &q, 10);
				if (*q == ':') q++;
				pat = q;
				while (hexv(q[0]) >= 0 && hexv(q[1]) >= 0) { q += 2; len++; }
			}
			// exact-size heap copy: a sanitizer sees every access past a region
			size_t total = plen + len * rep;
			unsigned char *buf = malloc(total ? total : 1);
			for (size_t i = 0; i < plen; i++) buf[i] = (unsigned char)(hexv(p[2 * i]) * 16 + hexv(p[2 * i + 1]));
			for (size_t i = 0; i < len; i++) buf[plen + i] = (unsigned char)(hexv(pat[2 * i]) * 16 + hexv(pat[2 * i + 1]));
			for (size_t k = 1; k < rep; k++) memcpy(buf + plen + k * len, buf + plen, len);
			len = total;
			dispatch_data_t leaf = dispatch_data_create(buf, len, NULL, DISPATCH_DATA_DESTRUCTOR_FREE);
			dispatch_data_t cat = dispatch_data_create_concat(data, leaf);
			dispatch_release(leaf);
			dispatch_release(data);
			data = cat;
			p = q;
			if (*p == ',') p++;
		}
		dispatch_data_t res = dispatch_data_create_with_transform(data, fmt(fi), fmt(fo));
		if (rt) {
			printf("S");
			summary("in", data);
			summary("out", res);
			if (res) {
				dispatch_data_t back = dispatch_data_create_with_transform(res, fmt(fo), fmt(fi));
				summary("back", back);
				if (back && back != res) dispatch_release(back);
				if (res != data) dispatch_release(res);
			}
			printf("\n");
			dispatch_release(data);
			fflush(stdout);
			continue;
		}
		if (!res) {
			printf("N\n");
		} else {
			size_t sz = dispatch_data_get_size(res);
			if (sz > ((size_t)1 << 20)) {
				printf("D %zu !\n", sz);
			} else if (sz == 0) {
				printf("D 0 -\n");
			} else {
				printf("D %zu ", sz);
				dispatch_data_apply(res, ^bool(dispatch_data_t r, size_t off, const void *b, size_t s) {
					(void)r; (void)off;
					for (size_t i = 0; i < s; i++) printf("%02x", ((const unsigned char *)b)[i]);
					return true;
				});
				printf("\n");
			}
			// transform.c returns the argument itself (not retained) for empty input; results with a bogus size
			// must not be destroyed either
			if (res != data && sz <= ((size_t)1 << 20)) dispatch_release(res);
		}
		dispatch_release(data);
		fflush(stdout);
	}
	return 0;
}
