// C06 correspondence driver (white-box): applies a sequence of dispatch_suspend / dispatch_resume /
// dispatch_activate calls to a fresh queue from ONE thread and prints the state word and the side counter after
// every call; optionally submits one item at a given position and reports after which call it ran.
//   input lines:  <width:1|c> <inactive:0|1> <item_pos or -1> <ops: string of s r a>
//   output line:  self w0 | st side [ran] ... per op | final_ran
#include "internal.h"
#include <inttypes.h>
static volatile int ran;
static void item(void *c) { (void)c; ran = 1; }
int main(void) {
	char line[1 << 16];
	while (fgets(line, sizeof line, stdin)) {
		char w; int inactive, pos; char ops[1 << 15];
		if (sscanf(line, " %c %d %d %32000s", &w, &inactive, &pos, ops) != 4) continue;
		dispatch_queue_attr_t a = (w == 'c') ? DISPATCH_QUEUE_CONCURRENT : DISPATCH_QUEUE_SERIAL;
		if (inactive) a = dispatch_queue_attr_make_initially_inactive(a);
		dispatch_queue_t q = dispatch_queue_create("c06", a);
		dispatch_lane_t dl = upcast(q)._dl;
		ran = 0;
		printf("%u %" PRIu64 " |", (unsigned)_dispatch_lock_value_for_self(), (uint64_t)os_atomic_load2o(dl, dq_state, relaxed));
		int n = (int)strlen(ops);
		for (int i = 0; i < n; i++) {
			if (i == pos) dispatch_async_f(q, NULL, item);
			switch (ops[i]) {
			case 's': dispatch_suspend(q); break;
			case 'r': dispatch_resume(q); break;
			case 'a': dispatch_activate(q); break;
			}
			if (pos >= 0 && i >= pos) { usleep(150); }
			uint64_t st = os_atomic_load2o(dl, dq_state, relaxed);
			printf(" %" PRIu64 " %u %d", st, (unsigned)dl->dq_side_suspend_cnt, ran);
		}
		// only a queue that never runs the item waits this out (30 s of 1 ms naps: not a timing window on a correct library)
		if (pos >= 0) { for (int k = 0; k < 30000 && !ran; k++) usleep(1000); }
		printf(" | %d\n", ran);
		fflush(stdout);
		// the queue is deliberately leaked: releasing a suspended object is a client crash
	}
	return 0;
}
