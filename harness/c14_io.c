// C14 correspondence driver (white-box build: includes the library's internal.h only to print constants and to map
// the operation pointer reported by the DISPATCH_VERIF note in _dispatch_operation_perform to the operation's
// target queue; every action goes through the PUBLIC dispatch_io API on real pipes / socketpairs / files).
//
// usage: c14_io <pattern-file>        scenario scripts on stdin, one command per line:
//   S <id> <chunk_pages>              begin scenario (dispatch_io_defaults.chunk_size = pages * PAGE_SIZE)
//   fd pipe_r|pipe_w|sock|file_r|file_w <arg> <arg2>
//                                      pipe_*: arg = pipe size (0 = default); file_r: arg = size, arg2 = pattern offset
//   chan                               dispatch_io_create(STREAM, fd, hq, cleanup)
//   low <n> | high <n> | interval <nsec> <strict>
//   read <op> <length> <hsleep_us>
//   write <op> <pattern_off> <hsleep_us> <nfrag> <frag sizes ...>
//   barrier <id> <sleep_us>
//   close | stop
//   pw <n>  peer writes n pattern bytes      pr <n>  peer reads up to n bytes     pc  peer closes    pshut  peer shutdown(WR)
//   holdleave <us>                     hold the group leave that reaches zero for <us> after its atomic add (0 = off)
//   closefd                            close the library's descriptor (later system calls fail with EBADF)
//   sleep <us> | waitdrain | wait <op> | drain | end
// output (per scenario, sorted by global sequence stamp):
//   K ...constants...                  (once)
//   S <id>
//   N <seq> <op> <ret|-errno> <len>    system call of _dispatch_operation_perform (from the guarded hook)
//   H <seq> <op> <done> <size|-1> <err> <crc32> <reentered>
//   B <seq_begin> <seq_end> <id>       barrier block
//   C <seq> <err>                      cleanup handler
//   A <seq> <what> <arg>               API call issued by the script (submit/close/stop), for ordering
//   P <seq> w|r <n> <crc>              peer I/O performed
//   F <size> <crc>                     final content of a written file
//   Z <status>                         end (ok | hang <ops still pending> | nocleanup)
#include "io.c"   // the library's own src/io.c (built with exclude_objs=io.c.o): gives the enum of perform results
#include <inttypes.h>
#include <fcntl.h>
#include <poll.h>
#include <signal.h>
#include <sys/ioctl.h>
#include <sys/socket.h>
#include <stdatomic.h>


#define MAXOPS 64
#define MAXLOG 200000
typedef struct { uint64_t seq; char txt[96]; } logline_t;
static logline_t *logv; static size_t logn; static pthread_mutex_t logmu = PTHREAD_MUTEX_INITIALIZER;
static _Atomic uint64_t seqctr;
static uint64_t next_seq(void) { return atomic_fetch_add(&seqctr, 1) + 1; }
static void logf_(uint64_t seq, const char *fmt, ...) {
	va_list ap; va_start(ap, fmt);
	pthread_mutex_lock(&logmu);
	if (logn < MAXLOG) { logv[logn].seq = seq; vsnprintf(logv[logn].txt, sizeof logv[logn].txt, fmt, ap); logn++; }
	pthread_mutex_unlock(&logmu);
	va_end(ap);
}
static int logcmp(const void *a, const void *b) {
	const logline_t *x = a, *y = b; return x->seq < y->seq ? -1 : x->seq > y->seq;
}

static uint32_t crctab[256];
static void crc_init(void) {
	for (uint32_t i = 0; i < 256; i++) { uint32_t c = i; for (int k = 0; k < 8; k++) c = c & 1 ? 0xEDB88320u ^ (c >> 1) : c >> 1; crctab[i] = c; }
}
static uint32_t crc_upd(uint32_t c, const unsigned char *p, size_t n) {
	c = ~c; while (n--) c = crctab[(c ^ *p++) & 0xff] ^ (c >> 8); return ~c;
}
static uint32_t data_crc(dispatch_data_t d) {
	__block uint32_t c = 0;
	dispatch_data_apply(d, ^bool(dispatch_data_t r, size_t off, const void *buf, size_t len) {
		(void)r; (void)off; c = crc_upd(c, buf, len); return true; });
	return c;
}

static unsigned char *BASE; static size_t BASEN;

typedef struct { int used, is_read; dispatch_queue_t q; _Atomic int in_handler; _Atomic int done; } opslot_t;
static opslot_t ops[MAXOPS];
static dispatch_queue_t hq;
static _Atomic int cleanup_runs;
static volatile long hold_leave_us;

static void note_cb(const volatile void *addr, unsigned size, int kind, int order, unsigned long long a,
		unsigned long long b, int ok, const char *file, int line) {
	(void)size; (void)order; (void)ok; (void)file; (void)line;
	if (kind == DV_ADD && size == 8 && hold_leave_us > 0 && b == DISPATCH_GROUP_VALUE_INTERVAL &&
			(a & DISPATCH_GROUP_VALUE_MASK) == DISPATCH_GROUP_VALUE_1) {
		// schedule perturbation (command holdleave): the dispatch_group_leave that brings a group's count to zero is
		// held right after its atomic add, i.e. before it detaches the notify list (semaphore.c:279-299)
		logf_(next_seq(), "A heldleave 0");
		usleep((useconds_t)hold_leave_us);
		return;
	}
	if (kind != DV_NOTE_USER) return;
	dispatch_operation_t op = (dispatch_operation_t)addr;
	dispatch_queue_t tq = op->op_q ? op->op_q->do_targetq : NULL;
	int id = -1;
	for (int i = 0; i < MAXOPS; i++) if (ops[i].used && ops[i].q == tq) { id = i; break; }
	logf_(next_seq(), "N %d %lld %llu", id, (long long)a, b);
}

static int fd_lib = -1, fd_peer = -1, fd_kind; // 1 pipe_r 2 pipe_w 3 sock 4 file_r 5 file_w
static char tmppath[128];
static size_t peer_wpos;
static unsigned char *peer_rbuf; static size_t peer_rn, peer_rcap;

static void peer_write(size_t n) {
	size_t done = 0; int idle = 0;
	while (done < n && idle < 2000) {
		ssize_t r = write(fd_peer, BASE + (peer_wpos % BASEN), n - done < BASEN - (peer_wpos % BASEN) ? n - done : BASEN - (peer_wpos % BASEN));
		if (r > 0) { done += (size_t)r; peer_wpos += (size_t)r; idle = 0; }
		else if (r < 0 && (errno == EAGAIN || errno == EINTR)) {
			int readers = 0;
			for (int k = 0; k < MAXOPS; k++) if (ops[k].used && ops[k].is_read && !atomic_load(&ops[k].done)) readers++;
			if (!readers && idle > 20) break; // the buffer is full and nobody is going to drain it
			usleep(1000); idle++;
		}
		else break;
	}
	logf_(next_seq(), "P w %zu 0", done);
}
static void peer_read(size_t n, int idle_max) {
	size_t got = 0; int idle = 0; uint32_t c = 0;
	while (got < n && idle < idle_max) {
		if (peer_rn + 65536 > peer_rcap) { peer_rcap = peer_rcap ? peer_rcap * 2 : 1 << 20; peer_rbuf = realloc(peer_rbuf, peer_rcap); }
		size_t want = n - got < 65536 ? n - got : 65536;
		ssize_t r = read(fd_peer, peer_rbuf + peer_rn, want);
		if (r > 0) { c = crc_upd(c, peer_rbuf + peer_rn, (size_t)r); got += (size_t)r; peer_rn += (size_t)r; idle = 0; }
		else if (r < 0 && (errno == EAGAIN || errno == EINTR)) { usleep(1000); idle++; }
		else break;
	}
	if (got) logf_(next_seq(), "P r %zu %u", got, c);
}

int main(int argc, char **argv) {
	signal(SIGPIPE, SIG_IGN);
	crc_init();
	logv = malloc(sizeof(logline_t) * MAXLOG);
	{
		FILE *f = fopen(argv[1], "rb"); if (!f) { perror("pattern"); return 2; }
		fseek(f, 0, SEEK_END); BASEN = (size_t)ftell(f); fseek(f, 0, SEEK_SET);
		BASE = malloc(BASEN); if (fread(BASE, 1, BASEN, f) != BASEN) return 2; fclose(f);
	}
	printf("K %u %u %u %u %u %u %u %d %d %d %d %d %d %d %d %d %d %d %d %u %u %zu\n", DOP_DEFAULT, DOP_DELIVER, DOP_DONE, DOP_STOP,
			DOP_NO_EMPTY, DIO_CLOSED, DIO_STOPPED, DISPATCH_OP_COMPLETE, DISPATCH_OP_DELIVER, DISPATCH_OP_DELIVER_AND_COMPLETE,
			DISPATCH_OP_COMPLETE_RESUME, DISPATCH_OP_RESUME, DISPATCH_OP_ERR, DISPATCH_OP_FD_ERR, EINTR, EBADF, EAGAIN, EWOULDBLOCK,
			ECANCELED, DIO_MAX_CHUNK_SIZE, DIO_DEFAULT_LOW_WATER_CHUNKS, (size_t)SIZE_MAX);
	printf("K2 %zu %lu\n", (size_t)PAGE_SIZE, (unsigned long)DISPATCH_IO_STRICT_INTERVAL);
	_dispatch_verif_cb = note_cb;
	char line[65536];
	dispatch_io_t ch = NULL; int closed = 0; long scen = -1;
	while (fgets(line, sizeof line, stdin)) {
		char cmd[32]; int pos = 0;
		if (sscanf(line, "%31s%n", cmd, &pos) != 1) continue;
		char *rest = line + pos;
		if (!strcmp(cmd, "S")) {
			long pages; sscanf(rest, "%ld %ld", &scen, &pages);
			_dispatch_iocntl(1 /* DISPATCH_IOCNTL_CHUNK_PAGES */, (uint64_t)pages);
			logn = 0; atomic_store(&seqctr, 0); atomic_store(&cleanup_runs, 0); memset(ops, 0, sizeof ops);
			hq = dispatch_queue_create("c14.handlers", NULL); ch = NULL; closed = 0; fd_lib = fd_peer = -1; fd_kind = 0;
			peer_wpos = 0; peer_rn = 0; tmppath[0] = 0; hold_leave_us = 0;
			printf("S %ld\n", scen);
		} else if (!strcmp(cmd, "fd")) {
			char kind[16]; long a = 0, b = 0; sscanf(rest, "%15s %ld %ld", kind, &a, &b);
			int p[2];
			if (!strcmp(kind, "pipe_r") || !strcmp(kind, "pipe_w")) {
				if (pipe(p)) { perror("pipe"); return 2; }
				if (a > 0) fcntl(p[1], F_SETPIPE_SZ, (int)a);
				if (kind[5] == 'r') { fd_lib = p[0]; fd_peer = p[1]; fd_kind = 1; } else { fd_lib = p[1]; fd_peer = p[0]; fd_kind = 2; }
				fcntl(fd_peer, F_SETFL, fcntl(fd_peer, F_GETFL) | O_NONBLOCK);
			} else if (!strcmp(kind, "sock")) {
				if (socketpair(AF_UNIX, SOCK_STREAM, 0, p)) { perror("socketpair"); return 2; }
				if (a > 0) { int v = (int)a; setsockopt(p[0], SOL_SOCKET, SO_SNDBUF, &v, sizeof v); setsockopt(p[1], SOL_SOCKET, SO_SNDBUF, &v, sizeof v); }
				fd_lib = p[0]; fd_peer = p[1]; fd_kind = 3;
				fcntl(fd_peer, F_SETFL, fcntl(fd_peer, F_GETFL) | O_NONBLOCK);
				peer_wpos = (size_t)b;
			} else {
				snprintf(tmppath, sizeof tmppath, "/tmp/c14_io_%d_%ld", (int)getpid(), scen);
				int f = open(tmppath, O_RDWR | O_CREAT | O_TRUNC, 0600);
				if (f < 0) { perror("open"); return 2; }
				if (!strcmp(kind, "file_r")) {
					size_t n = (size_t)a, o = (size_t)b;
					while (n) { size_t k = n < BASEN - (o % BASEN) ? n : BASEN - (o % BASEN); if (write(f, BASE + (o % BASEN), k) != (ssize_t)k) return 2; n -= k; o += k; }
					lseek(f, 0, SEEK_SET); fd_kind = 4;
				} else fd_kind = 5;
				fd_lib = f;
			}
			if (fd_kind == 1) peer_wpos = (size_t)b;
		} else if (!strcmp(cmd, "chan")) {
			ch = dispatch_io_create(DISPATCH_IO_STREAM, fd_lib, hq, ^(int err) {
				atomic_fetch_add(&cleanup_runs, 1); logf_(next_seq(), "C %d", err); });
		} else if (!strcmp(cmd, "low")) { unsigned long long v; sscanf(rest, "%llu", &v); dispatch_io_set_low_water(ch, (size_t)v);
		} else if (!strcmp(cmd, "high")) { unsigned long long v; sscanf(rest, "%llu", &v); dispatch_io_set_high_water(ch, (size_t)v);
		} else if (!strcmp(cmd, "interval")) { unsigned long long v; int st; sscanf(rest, "%llu %d", &v, &st);
			dispatch_io_set_interval(ch, v, st ? DISPATCH_IO_STRICT_INTERVAL : 0);
		} else if (!strcmp(cmd, "read") || !strcmp(cmd, "write")) {
			int id; unsigned long long a; long hs; int n = 0;
			sscanf(rest, "%d %llu %ld%n", &id, &a, &hs, &n); rest += n;
			ops[id].q = dispatch_queue_create_with_target("c14.op", NULL, hq); ops[id].used = 1; ops[id].is_read = (cmd[0] == 'r');
			dispatch_io_handler_t h = ^(bool done, dispatch_data_t d, int err) {
				uint64_t s = next_seq();
				int re = atomic_exchange(&ops[id].in_handler, 1);
				long sz = d ? (long)dispatch_data_get_size(d) : -1;
				logf_(s, "H %d %d %ld %d %u %d", id, (int)done, sz, err, d ? data_crc(d) : 0, re);
				if (hs > 0) usleep((useconds_t)hs);
				atomic_store(&ops[id].in_handler, 0);
				if (done) atomic_fetch_add(&ops[id].done, 1);
			};
			if (cmd[0] == 'r') {
				logf_(next_seq(), "A read %d", id);
				dispatch_io_read(ch, 0, (size_t)a, ops[id].q, h);
			} else {
				int nf; sscanf(rest, "%d%n", &nf, &n); rest += n;
				dispatch_data_t d = dispatch_data_empty; size_t o = (size_t)a;
				for (int i = 0; i < nf; i++) {
					unsigned long long fs; sscanf(rest, "%llu%n", &fs, &n); rest += n;
					unsigned char *m = malloc(fs ? fs : 1);
					for (size_t k = 0; k < fs; k++) m[k] = BASE[(o + k) % BASEN];
					o += fs;
					dispatch_data_t leaf = dispatch_data_create(m, (size_t)fs, NULL, DISPATCH_DATA_DESTRUCTOR_FREE);
					dispatch_data_t c = dispatch_data_create_concat(d, leaf);
					dispatch_release(leaf); dispatch_release(d); d = c;
				}
				logf_(next_seq(), "A write %d", id);
				dispatch_io_write(ch, 0, d, ops[id].q, h);
				dispatch_release(d);
			}
		} else if (!strcmp(cmd, "barrier")) {
			int id; long us; sscanf(rest, "%d %ld", &id, &us);
			logf_(next_seq(), "A barrier %d", id);
			dispatch_io_barrier(ch, ^{ uint64_t s = next_seq(); if (us > 0) usleep((useconds_t)us); logf_(s, "B %" PRIu64 " %d", next_seq(), id); });
		} else if (!strcmp(cmd, "close")) { logf_(next_seq(), "A close 0"); dispatch_io_close(ch, 0); closed = 1;
		} else if (!strcmp(cmd, "stop")) { logf_(next_seq(), "A stop 0"); dispatch_io_close(ch, DISPATCH_IO_STOP); closed = 1;
		} else if (!strcmp(cmd, "pw")) { unsigned long long v; sscanf(rest, "%llu", &v); peer_write((size_t)v);
		} else if (!strcmp(cmd, "pr")) { unsigned long long v; sscanf(rest, "%llu", &v); peer_read((size_t)v, 300);
		} else if (!strcmp(cmd, "drain")) { // peer reads until every submitted operation is done
			for (int t = 0; t < 25000; t++) {
				int pending = 0; for (int i = 0; i < MAXOPS; i++) if (ops[i].used && !atomic_load(&ops[i].done)) pending++;
				if (!pending) break;
				if (fd_peer >= 0) peer_read(1 << 20, 1); else usleep(200);
			}
		} else if (!strcmp(cmd, "pc")) { if (fd_peer >= 0) { close(fd_peer); fd_peer = -1; } logf_(next_seq(), "A pc 0");
		} else if (!strcmp(cmd, "holdleave")) { sscanf(rest, "%ld", &hold_leave_us);
		} else if (!strcmp(cmd, "closefd")) { // the client closes the descriptor behind the channel's back (EBADF)
			if (fd_lib >= 0) { close(fd_lib); fd_lib = -1; } logf_(next_seq(), "A closefd 0");
		} else if (!strcmp(cmd, "pshut")) { if (fd_peer >= 0) shutdown(fd_peer, SHUT_WR); logf_(next_seq(), "A pshut 0");
		} else if (!strcmp(cmd, "sleep")) { long us; sscanf(rest, "%ld", &us); usleep((useconds_t)us);
		} else if (!strcmp(cmd, "waitdrain")) {
			for (int i = 0; i < 2000; i++) {
				int n = 0, readers = 0;
				if (ioctl(fd_lib, FIONREAD, &n) || n == 0) break;
				for (int k = 0; k < MAXOPS; k++) if (ops[k].used && ops[k].is_read && !atomic_load(&ops[k].done)) readers++;
				if (!readers) break; // nobody is going to drain it (all reads done or cancelled)
				usleep(1000);
			}
			usleep(3000);
		} else if (!strcmp(cmd, "wait")) {
			int id; sscanf(rest, "%d", &id);
			for (int i = 0; i < 5000 && !atomic_load(&ops[id].done); i++) usleep(1000);
		} else if (!strcmp(cmd, "end")) {
			int pending = 0;
			for (int t = 0; t < 8000; t++) { pending = 0; for (int i = 0; i < MAXOPS; i++) if (ops[i].used && !atomic_load(&ops[i].done)) pending++; if (!pending) break; usleep(1000); }
			if (ch) { if (!closed) dispatch_io_close(ch, 0); dispatch_release(ch); }
			int ok = 0;
			for (int t = 0; t < 5000; t++) { if (atomic_load(&cleanup_runs)) { ok = 1; break; } usleep(1000); }
			usleep(15000); // late (duplicate) invocations would land here
			dispatch_sync(hq, ^{});
			if (fd_kind == 5) {
				struct stat sb; fstat(fd_lib, &sb); unsigned char *m = malloc((size_t)sb.st_size + 1);
				ssize_t r = pread(fd_lib, m, (size_t)sb.st_size, 0); printf("F %zd %u\n", r, crc_upd(0, m, r > 0 ? (size_t)r : 0)); free(m);
			}
			if (fd_peer >= 0 && (fd_kind == 2 || fd_kind == 3)) peer_read((size_t)1 << 30, 20);
			pthread_mutex_lock(&logmu);
			qsort(logv, logn, sizeof *logv, logcmp);
			for (size_t i = 0; i < logn; i++) printf("%c %" PRIu64 "%s\n", logv[i].txt[0], logv[i].seq, logv[i].txt + 1);
			pthread_mutex_unlock(&logmu);
			if (fd_kind == 2 || fd_kind == 3) printf("R %zu %u\n", peer_rn, crc_upd(0, peer_rbuf, peer_rn));
			if (logn >= MAXLOG) printf("Z overflow\n"); else if (pending) printf("Z hang %d\n", pending); else if (!ok) printf("Z nocleanup\n"); else printf("Z ok %d\n", atomic_load(&cleanup_runs));
			fflush(stdout);
			if (fd_peer >= 0) close(fd_peer);
			if (fd_lib >= 0) close(fd_lib);
			if (tmppath[0]) unlink(tmppath);
			for (int i = 0; i < MAXOPS; i++) if (ops[i].used && ops[i].q) dispatch_release(ops[i].q);
			dispatch_release(hq);
			if (pending || !ok) return 3; // the library is in an unknown state; the driver restarts us for the remaining scenarios
		}
	}
	return 0;
}
