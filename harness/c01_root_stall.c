// C01 (root queue): deterministic witness of the wake-up that only the monitor repairs (model: RootQ.stall_schedule,
// theorem C01_root_stall_needs_monitor).  The DISPATCH_VERIF hook is used only to HOLD threads at chosen atomic
// operations (a legal schedule: a thread may be preempted for any time); no library state is touched.
//   pool of one thread (the process is pinned to one cpu before libdispatch reads the cpu count);
//   W = the pool worker: after its item it sleeps on the pool semaphore, times out (5 s), undoes its decrement: HELD there;
//   Q = main: pushes item 2 onto the empty queue: signal (banked), dgq_pending 0 -> 1, loads dgq_thread_pool_size = 0: HELD;
//   W released: gives its slot back (pool size 1), pokes: signal (banked), dgq_pending busy -> returns; thread ends;
//   Q released: can_request == 0 -> drops its request, returns.
//   The manager thread (monitor) is HELD at its next probe of the queue for <hold_ms> (default 3000).
// While the monitor is held: item 2 is queued, the pool has a free slot, nothing is pending, no thread is in the pool
// protocol.  The program reports whether item 2 ran during that time, and who created the thread that ran it.
// mode 1 (second argument): W is held right after sem_timedwait reported the timeout; Q pushes item 2 (its signal finds
// dsema_value -1: sem_post); W released: reads dsema_value 0, must drain the wake-up with sem_wait and run item 2.
//   output "DRAINWAKE ran=<0|1>" then the dump.
// output: "STALL ran_while_monitor_held=<0|1> held_ms=<ms> ran_after_release_ms=<ms> pool_size_during=<n> pending_during=<n>
//          sem_value_during=<n> creator_is_manager=<0|1>"   then the recorder dump (obj 1 = queue, obj 2 = pool semaphore).
#define _GNU_SOURCE 1
#include "internal.h"
#include <stddef.h>
#include <sched.h>
#include <time.h>
#include "dv_record.h"

static dispatch_queue_global_t gq; static dispatch_semaphore_t sm;
static long main_tid; static _Atomic long w_tid, mgr_tid, creator_tid;
static _Atomic int armed, w_at_undo, q_loaded_pool, w_poke_done, q_done, mon_release, mon_held;
static _Atomic int ran[3];
static int mode;   // 0: the lost wake-up; 1: a signal arrives between the worker's sem_timedwait timeout and its undo (it must drain the wake-up)
static _Atomic int w_timedout;
static double now_ms(void) { struct timespec ts; clock_gettime(CLOCK_MONOTONIC, &ts); return ts.tv_sec * 1e3 + ts.tv_nsec / 1e6; }
static void spin_until(_Atomic int *f) { while (!atomic_load(f)) usleep(200); }

static void hold_cb(const volatile void *addr, unsigned size, int kind, int order, unsigned long long a, unsigned long long b,
		int ok, const char *file, int line) {
	dv_cb(addr, size, kind, order, a, b, ok, file, line);      // record first
	if (!atomic_load(&armed)) return;
	int saved = errno;
	long me = (long)syscall(SYS_gettid);
	uintptr_t p = (uintptr_t)addr, q0 = (uintptr_t)gq;
	int on_pool = p == q0 + offsetof(struct dispatch_queue_global_s, dgq_thread_pool_size);
	int on_pend = p == q0 + offsetof(struct dispatch_queue_global_s, dgq_pending);
	int on_tail = p == q0 + offsetof(struct dispatch_queue_global_s, dq_items_tail);
	int on_sem = p == (uintptr_t)&sm->dsema_value;
	if (kind == 7 /*SUB*/ && on_pend && !atomic_load(&w_tid) && me != main_tid && order == 0) atomic_store(&w_tid, me);
	if (mode == 1) {
		if (me == atomic_load(&w_tid) && kind == 37 /*SEM_TIMEDWAIT_RET*/ && b != 0 && !atomic_load(&w_timedout)) {
			atomic_store(&w_timedout, 1); spin_until(&q_done);
		}
		errno = saved; return;
	}
	if (me == atomic_load(&w_tid) && !atomic_load(&q_done)) {
		if (kind == 5 /*CASW*/ && on_sem && (ok & 1) && !atomic_load(&w_at_undo)) {     // W undid its decrement after the timeout
			atomic_store(&w_at_undo, 1); spin_until(&q_loaded_pool);
		} else if (kind == 4 /*CAS*/ && on_pend && atomic_load(&w_at_undo) && !(ok & 1)) {  // W's poke found dgq_pending busy
			atomic_store(&w_poke_done, 1);
		}
	} else if (me == main_tid && atomic_load(&w_at_undo) && !atomic_load(&q_loaded_pool)) {
		if (kind == 1 /*LOAD*/ && on_pool) { atomic_store(&q_loaded_pool, 1); spin_until(&w_poke_done); usleep(20000); }
	} else if (me != main_tid && me != atomic_load(&w_tid) && atomic_load(&q_done)) {
		// the manager thread's monitor pass: hold it at its probe of the queue
		if (kind == 1 && on_tail && order == 5 && !atomic_load(&mon_held)) {
			atomic_store(&mgr_tid, me); atomic_store(&mon_held, 1); spin_until(&mon_release);
		}
		if (kind == 5 && on_pool && (ok & 1) && !atomic_load(&creator_tid)) atomic_store(&creator_tid, me);
	}
	errno = saved;
}
static void work(void *ctx) {
	long id = (long)ctx;
	dv_user(DVU_CALLOUT_BEGIN, 1, (unsigned long long)id, 0);
	atomic_store(&ran[id], 1);
	dv_user(DVU_CALLOUT_END, 1, (unsigned long long)id, 0);
}
static void warm(void *ctx) { atomic_store((_Atomic int *)ctx, 1); }

int main(int argc, char **argv) {
	int hold_ms = argc > 1 ? atoi(argv[1]) : 3000;
	mode = argc > 2 ? atoi(argv[2]) : 0;
	if (!getenv("C01_PINNED")) {     // libdispatch reads the cpu count in its constructor: pin, then re-exec
		cpu_set_t one; CPU_ZERO(&one); CPU_SET(sched_getcpu(), &one); sched_setaffinity(0, sizeof one, &one);
		setenv("C01_PINNED", "1", 1); execv("/proc/self/exe", argv); return 3;
	}
	main_tid = (long)syscall(SYS_gettid);
	_Atomic int warmed = 0;
	dispatch_async_f(dispatch_get_global_queue(DISPATCH_QUEUE_PRIORITY_HIGH, 0), &warmed, warm);
	while (!atomic_load(&warmed)) usleep(100);
	dispatch_queue_t q = dispatch_get_global_queue(DISPATCH_QUEUE_PRIORITY_LOW, 0);
	gq = (dispatch_queue_global_t)q;
	dispatch_pthread_root_queue_context_t pqc = gq->do_ctxt; sm = &pqc->dpq_thread_mediator;
	long off_sema = (long)((char *)&sm->dsema_sema - (char *)&sm->dsema_value);
	printf("Q %d 0 %zu %zu %zu %zu %zu %ld %zu %d\n", (int)dispatch_hw_config(active_cpus),
		offsetof(struct dispatch_queue_global_s, dq_items_tail), offsetof(struct dispatch_queue_global_s, dgq_thread_pool_size),
		offsetof(struct dispatch_queue_global_s, dq_items_head), offsetof(struct dispatch_queue_global_s, dgq_pending),
		offsetof(struct dispatch_object_s, do_next), off_sema, sizeof *gq, gq->dgq_thread_pool_size);
	if (gq->dgq_thread_pool_size != 1) { printf("STALL skipped: pool size %d\n", gq->dgq_thread_pool_size); return 0; }
	dv_seed = 1; dv_permille = 0; atomic_store(&dv_enabled, 1); _dispatch_verif_cb = hold_cb;
	dv_track((void *)0, (size_t)-1, 0);
	dv_track(gq, sizeof *gq, 1);
	dv_track(&sm->dsema_value, (size_t)off_sema + sizeof(sm->dsema_sema), 2);
	atomic_store(&armed, 1);
	dv_user(DVU_CALL, 1, 0, 1);
	dispatch_async_f(q, (void *)1, work);
	dv_user(DVU_RET, 1, 0, 0);
	while (!atomic_load(&ran[1])) usleep(200);
	double t0 = now_ms();
	if (mode == 1) {
		while (!atomic_load(&w_timedout) && now_ms() - t0 < 9000) usleep(500);
		if (!atomic_load(&w_timedout)) { printf("DRAINWAKE skipped\n"); return 0; }
		dv_user(DVU_CALL, 1, 0, 2);
		dispatch_async_f(q, (void *)2, work);      // signal: dsema_value -1 -> 0, sem_post; W is past its timeout
		dv_user(DVU_RET, 1, 0, 0);
		atomic_store(&q_done, 1);
		double t3 = now_ms();
		while (!atomic_load(&ran[2]) && now_ms() - t3 < 5000) usleep(200);
		usleep(20000);
		printf("DRAINWAKE ran=%d\n", atomic_load(&ran[2]));
		atomic_store(&dv_enabled, 0); dv_dump(stdout); fflush(stdout); _exit(0);
	}
	while (!atomic_load(&w_at_undo) && now_ms() - t0 < 9000) usleep(500);     // W times out after 5 s
	if (!atomic_load(&w_at_undo)) { printf("STALL skipped: worker did not time out\n"); return 0; }
	dv_user(DVU_CALL, 1, 0, 2);
	dispatch_async_f(q, (void *)2, work);                                       // Q: held inside at the load of the pool size
	dv_user(DVU_RET, 1, 0, 0);
	atomic_store(&q_done, 1);
	double t1 = now_ms();
	// the monitor's next pass is held at its probe; meanwhile nothing else can help item 2
	while (now_ms() - t1 < hold_ms + 1200 && !atomic_load(&mon_held)) usleep(500);
	double th = now_ms();
	while (now_ms() - th < hold_ms) usleep(500);
	int ran_while_held = atomic_load(&ran[2]);
	int pool_during = gq->dgq_thread_pool_size, pend_during = gq->dgq_pending; long sem_during = sm->dsema_value;
	double held = now_ms() - t1;
	atomic_store(&mon_release, 1);
	double t2 = now_ms();
	while (!atomic_load(&ran[2]) && now_ms() - t2 < 5000) usleep(200);
	double after = now_ms() - t2;
	usleep(20000);
	printf("STALL ran_while_monitor_held=%d held_ms=%.0f ran_after_release_ms=%.0f pool_size_during=%d pending_during=%d "
		"sem_value_during=%ld creator_is_manager=%d ran_finally=%d monitor_seen=%d\n", ran_while_held, held, after, pool_during, pend_during,
		sem_during, atomic_load(&creator_tid) != 0 && atomic_load(&creator_tid) == atomic_load(&mgr_tid), atomic_load(&ran[2]),
		atomic_load(&mon_held));
	atomic_store(&dv_enabled, 0);
	dv_dump(stdout);
	fflush(stdout);
	_exit(0);
}
