// C11 white-box correspondence driver: #includes the library's src/event/event.c so that the static timer-heap
// functions, _dispatch_timers_run, _dispatch_timers_program and the timer unote functions are reachable without
// any change in /repo (link with exclude_objs=("event.c.o",)). The two calls by which event.c programs the kernel
// timer (event_epoll.c) are redirected to recorders, everything else is the library's code.
//
// protocol (one command per line on stdin, one result line per command that produces output):
//   N n                 reset: n fake timer records (ids 1..n), all three heaps empty
//   K id tgt dl         set heap keys of timer id (no heap operation)
//   I id | D id | U id  _dispatch_timer_heap_insert / _remove / _update on heap 0, then dump
//                       dump = count segs needs_program(cleared before the op) | cap slots[0..cap) as ids | ent0 ent1 per timer
//   A                   for the current segment count: for every idx < capacity the (segment, offset) of the cell that
//                       _dispatch_timer_heap_get_slot returns, as found from the segment pointer table
//   M tgt dl itv now prev   _dispatch_timer_unote_compute_missed -> ret tgt' dl'
//   --- state machine (global _dispatch_timers_heap, private to this process: nothing else runs)
//   t id flags          (unregister timer id first if it is still armed, then) (re)initialise it as a fresh unote with du_timer_flags=flags (as _dispatch_source_timer_create)
//   a id tgt dl         as _dispatch_after: direct timer values, interval = UINT64_MAX
//   c id clock tgt dl itv   install a pending configuration (what dispatch_source_set_timer stores)
//   g id                register: state = ANON wlh; configure if pending (as _dispatch_timer_unote_register, non-background)
//   f id                _dispatch_timer_unote_configure (requires pending config) [as called by run / latch]
//   r id                _dispatch_timer_unote_resume
//   u id                _dispatch_timer_unote_unregister
//   s id 0|1            owner source suspended?
//   l id                latch: what _dispatch_source_latch_and_call does with a timer: prev = xchg(pending,0); data =
//                       (prev & DISARMED) ? _dispatch_source_timer_data(prev) : prev>>1 with `now` given: l id now
//   p id v              set ds_pending_data
//   R tidx now          _dispatch_timers_run(heaps, tidx, nows{now}) ; prints fired events "id:pending" in order, then state
//   P tidx now          if needs_program: _dispatch_timers_program ; prints kernel calls, then state
//   W n0 n1 n2          _dispatch_event_loop_drain_timers with the three clock readings faked; prints events # kernel calls # dirty # state
//   S                   print state
//   state = dirty | per heap tidx: count needs_program armed min0 min1 | per timer: armed ident tgt dl itv pending ent0 ent1 hascfg refdelta
#include "internal.h"
// redirections apply to the calls made by event.c only (internal.h is already included: its declarations keep their names)
void c11_timer_arm(dispatch_timer_heap_t dth, uint32_t tidx, dispatch_timer_delay_s range, dispatch_clock_now_cache_t nows);
void c11_timer_delete(dispatch_timer_heap_t dth, uint32_t tidx);
static uint64_t c11_fake_now[DISPATCH_CLOCK_COUNT];
static inline uint64_t c11_now_cached(dispatch_clock_t clock, dispatch_clock_now_cache_t cache)
{
	// a prefilled cache entry wins (R / P commands); otherwise the fake clock of the W command
	if (cache->nows[clock]) return cache->nows[clock];
	if (c11_fake_now[clock]) return (cache->nows[clock] = c11_fake_now[clock]);
	return _dispatch_time_now_cached(clock, cache);
}
#define _dispatch_event_loop_timer_arm c11_timer_arm
#define _dispatch_event_loop_timer_delete c11_timer_delete
#define _dispatch_time_now_cached c11_now_cached
#include "event/event.c"
#undef _dispatch_time_now_cached
#include <inttypes.h>

#define MAXT 4096
static struct dispatch_timer_source_refs_s T[MAXT + 1];
static struct dispatch_source_s OWN[MAXT + 1];
static int NT;
static struct dispatch_timer_heap_s H;

static char kbuf[4096];
static size_t klen;
void c11_timer_arm(dispatch_timer_heap_t dth, uint32_t tidx, dispatch_timer_delay_s range, dispatch_clock_now_cache_t nows)
{
	uint64_t target = range.delay + c11_now_cached(DISPATCH_TIMER_CLOCK(tidx), nows);
	klen += (size_t)snprintf(kbuf + klen, sizeof kbuf - klen, " arm:%u:%" PRIu64 ":%" PRIu64, tidx, target, (uint64_t)range.leeway);
}
void c11_timer_delete(dispatch_timer_heap_t dth, uint32_t tidx)
{
	klen += (size_t)snprintf(kbuf + klen, sizeof kbuf - klen, " del:%u", tidx);
}

static char ebuf[1 << 16];
static size_t elen;
static void c11_merge_evt(dispatch_unote_t du, uint32_t flags, uintptr_t data, pthread_priority_t pp)
{
	dispatch_timer_source_refs_t dt = du._dt;
	elen += (size_t)snprintf(ebuf + elen, sizeof ebuf - elen, " %d:%" PRIu64, (int)(dt - T),
			(uint64_t)os_atomic_load2o(dt, ds_pending_data, relaxed));
	// _dispatch_source_merge_evt consumes the +2 handed over by the caller
	_dispatch_release_2_no_dispose(_dispatch_source_from_refs(dt));
}
static dispatch_source_type_s c11_type = {
	.dst_kind = "c11 fake timer", .dst_filter = DISPATCH_EVFILT_TIMER, .dst_flags = EV_DISPATCH,
	.dst_action = DISPATCH_UNOTE_ACTION_SOURCE_TIMER, .dst_size = sizeof(struct dispatch_timer_source_refs_s),
	.dst_merge_evt = c11_merge_evt,
};

#define REF0 1000000
static void timer_init(int id, unsigned flags)
{
	dispatch_timer_source_refs_t dt = &T[id];
	if (dt->dt_pending_config) free(dt->dt_pending_config);
	memset(dt, 0, sizeof *dt);
	memset(&OWN[id], 0, sizeof OWN[id]);
	OWN[id].do_ref_cnt = REF0;
	OWN[id].do_xref_cnt = REF0;
	dt->du_type = &c11_type;
	dt->du_owner_wref = _dispatch_ptr2wref(&OWN[id]);
	dt->du_filter = DISPATCH_EVFILT_TIMER;
	dt->du_is_timer = true;
	dt->du_timer_flags = (uint8_t)flags;
	dt->du_ident = _dispatch_timer_unote_idx(dt);
	dt->dt_timer.target = UINT64_MAX;
	dt->dt_timer.deadline = UINT64_MAX;
	dt->dt_timer.interval = UINT64_MAX;
	dt->dt_heap_entry[DTH_TARGET_ID] = DTH_INVALID_ID;
	dt->dt_heap_entry[DTH_DEADLINE_ID] = DTH_INVALID_ID;
}

static void heap_free(dispatch_timer_heap_t dth)
{
	while (dth->dth_segments) _dispatch_timer_heap_shrink(dth);
	memset(dth, 0, sizeof *dth);
}

static void reset(int n)
{
	NT = n;
	heap_free(&H);
	for (int i = 0; i < DISPATCH_TIMER_COUNT; i++) heap_free(&_dispatch_timers_heap[i]);
	for (int i = 1; i <= n; i++) timer_init(i, 0);
}

static long tid(dispatch_timer_source_refs_t p)
{
	if (!p) return 0;
	if (p < T || p > T + MAXT) return -1; // not a timer record: would be a stale / foreign pointer
	return (long)(p - T);
}

static void dump_heap(void)
{
	uint32_t cap = _dispatch_timer_heap_capacity(H.dth_segments);
	printf("%u %u %u | %u", H.dth_count, (unsigned)H.dth_segments, (unsigned)H.dth_needs_program, cap);
	// cells at idx >= count that hold a segment pointer (tail of a former last segment) are reported as 0 only when
	// they are NULL; otherwise -1 shows up and the comparison ignores nothing: the model says 0 for idx >= count
	for (uint32_t i = 0; i < cap; i++) {
		dispatch_timer_source_refs_t p = *_dispatch_timer_heap_get_slot(&H, i);
		printf(" %ld", tid(p));
	}
	printf(" |");
	for (int i = 1; i <= NT; i++) printf(" %u %u", T[i].dt_heap_entry[0], T[i].dt_heap_entry[1]);
	printf("\n");
}

static void dump_addr(void)
{
	uint32_t segs = H.dth_segments, cap = _dispatch_timer_heap_capacity(segs);
	void **base[64] = { 0 };
	if (segs) {
		base[segs - 1] = H.dth_heap;
		uint32_t lastcap = segs == 1 ? DISPATCH_HEAP_INIT_SEGMENT_CAPACITY : DISPATCH_HEAP_INIT_SEGMENT_CAPACITY << (segs - 2);
		for (uint32_t k = 0; k + 1 < segs; k++) base[k] = H.dth_heap[lastcap - k - 1];
	}
	printf("%u %u |", segs, cap);
	for (uint32_t i = 0; i < cap; i++) {
		void **p = (void **)_dispatch_timer_heap_get_slot(&H, i);
		long seg = -2, off = -1;
		if (p == (void **)&H.dth_min[0]) { seg = -1; off = 0; }
		else if (p == (void **)&H.dth_min[1]) { seg = -1; off = 1; }
		else for (uint32_t k = 0; k < segs; k++) {
			uint32_t kc = k == 0 ? DISPATCH_HEAP_INIT_SEGMENT_CAPACITY : DISPATCH_HEAP_INIT_SEGMENT_CAPACITY << (k - 1);
			if (p >= base[k] && p < base[k] + kc) { seg = k; off = p - base[k]; }
		}
		printf(" %ld %ld", seg, off);
	}
	printf("\n");
}

static void dump_state(void)
{
	printf("%d ", _dispatch_timers_heap[0].dth_dirty_bits != 0);
	for (int i = 0; i < DISPATCH_TIMER_COUNT; i++) {
		dispatch_timer_heap_t d = &_dispatch_timers_heap[i];
		printf("%u %u %u %ld %ld ", d->dth_count, (unsigned)d->dth_needs_program, (unsigned)d->dth_armed,
				tid(d->dth_min[0]), tid(d->dth_min[1]));
	}
	printf("|");
	for (int i = 1; i <= NT; i++) {
		dispatch_timer_source_refs_t dt = &T[i];
		printf(" %d %u %" PRIu64 " %" PRIu64 " %" PRIu64 " %" PRIu64 " %u %u %d %d %d", (int)_dispatch_unote_armed(dt),
				(unsigned)dt->du_ident, dt->dt_timer.target, dt->dt_timer.deadline, dt->dt_timer.interval,
				(uint64_t)dt->ds_pending_data, dt->dt_heap_entry[0], dt->dt_heap_entry[1], dt->dt_pending_config != NULL,
				(int)_dispatch_unote_registered(dt),   // du_state != DU_STATE_UNREGISTERED
				(int)(OWN[i].do_ref_cnt - REF0));
	}
	printf("\n");
}

int main(void)
{
	static char line[1 << 16];
	while (fgets(line, sizeof line, stdin)) {
		char c = line[0];
		int id = 0; unsigned long long a = 0, b = 0, d = 0, e = 0, f = 0;
		sscanf(line + 1, "%d %llu %llu %llu %llu %llu", &id, &a, &b, &d, &e, &f);
		switch (c) {
		case 'N': reset(id); break;
		case 'K': T[id].dt_timer.target = a; T[id].dt_timer.deadline = b; break;
		case 'I': H.dth_needs_program = 0; _dispatch_timer_heap_insert(&H, &T[id]); dump_heap(); break;
		case 'D': H.dth_needs_program = 0; _dispatch_timer_heap_remove(&H, &T[id]); dump_heap(); break;
		case 'U': H.dth_needs_program = 0; _dispatch_timer_heap_update(&H, &T[id]); dump_heap(); break;
		case 'A': dump_addr(); break;
		case 'M': {
			unsigned long long tg, dl, itv, now, prev;
			sscanf(line + 1, "%llu %llu %llu %llu %llu", &tg, &dl, &itv, &now, &prev);
			struct dispatch_timer_source_refs_s x; memset(&x, 0, sizeof x);
			x.dt_timer.target = tg; x.dt_timer.deadline = dl; x.dt_timer.interval = itv;
			unsigned long r = _dispatch_timer_unote_compute_missed(&x, now, prev);
			printf("%lu %" PRIu64 " %" PRIu64 "\n", r, x.dt_timer.target, x.dt_timer.deadline);
			break;
		}
		case 't':
			// a record is recycled only after it left the heap (cancel of a still armed source)
			if (id <= NT && T[id].du_type && _dispatch_unote_armed(&T[id])) _dispatch_timer_unote_unregister(&T[id]);
			timer_init(id, (unsigned)a); break;
		case 'a': T[id].dt_timer.target = a; T[id].dt_timer.deadline = b; T[id].dt_timer.interval = UINT64_MAX; break;
		case 'c': {
			dispatch_timer_config_t dtc = _dispatch_calloc(1, sizeof *dtc);
			dtc->dtc_clock = (dispatch_clock_t)a; dtc->dtc_timer.target = b; dtc->dtc_timer.deadline = d; dtc->dtc_timer.interval = e;
			dtc = os_atomic_xchg2o(&T[id], dt_pending_config, dtc, release);
			if (dtc) free(dtc);
			break;
		}
		case 'g':
			// the library's own registration (event.c:839), for a source that is not of background QoS
			_dispatch_timer_unote_register(&T[id], DISPATCH_WLH_ANON, 0);
			break;
		case 'f': _dispatch_timer_unote_configure(&T[id]); break;
		case 'r': _dispatch_timer_unote_resume(&T[id]); break;
		case 'u': _dispatch_timer_unote_unregister(&T[id]); break;
		case 's': OWN[id].dq_state = a ? DISPATCH_QUEUE_SUSPEND_INTERVAL : 0; break;
		case 'p': T[id].ds_pending_data = a; break;
		case 'l': {
			// the timer branch of _dispatch_source_latch_and_call with the clock read replaced by `a`
			dispatch_timer_source_refs_t dr = &T[id];
			uint64_t prev = os_atomic_xchg2o(dr, ds_pending_data, 0, relaxed);
			unsigned long data = (unsigned long)prev >> 1;
			if (prev & DISPATCH_TIMER_DISARMED_MARKER) {
				if (dr->dt_timer.target < INT64_MAX) {
					uint64_t now = a;
					if (now >= dr->dt_timer.target) data = _dispatch_timer_unote_compute_missed(dr, now, data);
				}
			}
			printf("%lu\n", data);
			break;
		}
		case 'R': {
			dispatch_clock_now_cache_s nows = { };
			nows.nows[DISPATCH_TIMER_CLOCK(id)] = a;
			elen = 0; ebuf[0] = 0;
			_dispatch_timers_run(_dispatch_timers_heap, (uint32_t)id, &nows);
			printf("E%s # ", ebuf); dump_state();
			break;
		}
		case 'P': {
			dispatch_clock_now_cache_s nows = { };
			nows.nows[DISPATCH_TIMER_CLOCK(id)] = a;
			klen = 0; kbuf[0] = 0;
			if (_dispatch_timers_heap[id].dth_needs_program) _dispatch_timers_program(_dispatch_timers_heap, (uint32_t)id, &nows);
			printf("P%s # ", kbuf); dump_state();
			break;
		}
		case 'W': {
			// the manager's whole timer pass with the three clocks faked: W now_uptime now_monotonic now_wall
			unsigned long long n0, n1, n2;
			sscanf(line + 1, "%llu %llu %llu", &n0, &n1, &n2);
			c11_fake_now[0] = n0; c11_fake_now[1] = n1; c11_fake_now[2] = n2;
			elen = 0; ebuf[0] = 0; klen = 0; kbuf[0] = 0;
			_dispatch_event_loop_drain_timers(_dispatch_timers_heap, DISPATCH_TIMER_COUNT);
			c11_fake_now[0] = c11_fake_now[1] = c11_fake_now[2] = 0;
			printf("W%s #%s # %u ", ebuf, kbuf, (unsigned)_dispatch_timers_heap[0].dth_dirty_bits);
			dump_state();
			break;
		}
		case 'S': dump_state(); break;
		default: break;
		}
		fflush(stdout);
	}
	return 0;
}
