// C03 target-queue hierarchy recorder (white-box: includes the library's internal header for struct offsets, the
// dq_state constants and the priority helpers; the scenario itself uses the public API only).
//
// Each round builds a random FOREST of serial queues (1..2 bottoms targeting a root queue, depth 1..4, fan-in 1..4,
// at most MAXL lanes) with dispatch_queue_create_with_target or with an initially inactive queue that is retargeted
// with dispatch_set_target_queue and then activated; some lanes carry a QoS attribute.  Every queue object is tracked
// with dv_track.  Several threads flood dispatch_async_f at random lanes of the forest (some work items submit further
// items from inside their callout), with schedule perturbation inside the library's atomic operations; the round ends
// when every item ran and every lane is idle again.
//
// usage: c03_hlane <seed> <rounds> <perturb_permille> [scale]
// output:
//   O <sizeof lane> <off dq_state> <off dq_items_tail> <off dq_items_head> <off do_next> <ENQUEUED> <DIRTY> <ROLE_MASK>
//     <ROLE_BASE_ANON> <IN_BARRIER> <WIDTH_INTERVAL> <DRAIN_OWNER_MASK> <MAX_QOS_MASK> <MAX_QOS_SHIFT>
//   L <round> <lane> <parent lane | -1> <address> <priority qos> <fallback qos> <initial dq_state> <final dq_state>
//     <creation mode> <root index> <dq_width>
//   R <round> <nlanes> <nthreads> <items> <ran> <overlap errors> <order errors> <idle ok> <seq begin> <seq end>
//   E <thread#> <gettid> <seq> <kind> <order> <obj> <off> <size> <a> <b> <ok> <file*100000+line>
//     obj = round*100 + lane; file: 0 = inline_internal.h, 1 = queue.c, 2 = anything else
// harness-level events (dv_user): DVU_CALL obj=lane a=ticket b=qos passed to dx_push (0 here) / DVU_RET around each
//   dispatch_async_f, DVU_CALLOUT_BEGIN / DVU_CALLOUT_END obj=lane a=ticket inside each work item.
#include "internal.h"
#include <inttypes.h>
#include "dv_record.h"

#define MAXT 6
#define MAXL 14
#define MAXITEMS 8192

typedef struct { int round, lane, ticket, thr, idx, spawn; } item_t;
static item_t items[MAXITEMS];
static _Atomic int next_ticket, ran, overlap_err, order_err, nitems_total;
static _Atomic int inflight[MAXL];                 // per bottom
static _Atomic int last_idx[MAXL][MAXT + 1];       // per lane and submitter (MAXT = callouts)
static _Atomic int spawn_idx[MAXL];
static dispatch_queue_t lane_q[MAXL]; static int lane_parent[MAXL], lane_bottom[MAXL], lane_mode[MAXL], nlanes;
static int cur_round; static uint64_t round_rng;
static pthread_barrier_t bar;

static const char *hl_fptr[16]; static int hl_fid[16]; static _Atomic int hl_nf;
static int hl_file(const char *f) {
	int n = atomic_load_explicit(&hl_nf, memory_order_acquire);
	for (int i = 0; i < n; i++) if (hl_fptr[i] == f) return hl_fid[i];
	int id = strstr(f, "inline_internal.h") ? 0 : (strstr(f, "queue.c") && !strstr(f, "workqueue.c")) ? 1 : 2;
	pthread_mutex_lock(&dv_mu);
	n = atomic_load(&hl_nf);
	if (n < 16) { hl_fptr[n] = f; hl_fid[n] = id; atomic_store_explicit(&hl_nf, n + 1, memory_order_release); }
	pthread_mutex_unlock(&dv_mu);
	return id;
}
static void hl_cb(const volatile void *addr, unsigned size, int kind, int order, unsigned long long a, unsigned long long b,
		int ok, const char *file, int line) {
	if (!atomic_load_explicit(&dv_enabled, memory_order_relaxed)) return;
	int saved_errno = errno;
	dv_thr_t *t = dv_me();
	uintptr_t p = (uintptr_t)addr; int n = atomic_load_explicit(&dv_nranges, memory_order_acquire);
	for (int i = n - 1; i >= 0; i--) if (p >= dv_ranges[i].lo && p < dv_ranges[i].hi) {
		dv_push(t, kind, order, dv_ranges[i].obj, (long)(p - dv_ranges[i].lo), (int)size, a, b, ok, hl_file(file) * 100000 + line);
		break;
	}
	if (dv_permille) {
		uint64_t r = dv_rand(t);
		if ((int)(r % 1000) < dv_permille) { if ((r >> 20) & 3) sched_yield(); else usleep((useconds_t)((r >> 24) % 60)); }
	}
	errno = saved_errno;
}

static void work(void *ctx);
static void submit(int lane, int thr, int idx, int spawn) {
	int k = atomic_fetch_add(&next_ticket, 1);
	if (k >= MAXITEMS) return;
	atomic_fetch_add(&nitems_total, 1);
	item_t *it = &items[k]; it->round = cur_round; it->lane = lane; it->ticket = k; it->thr = thr; it->idx = idx; it->spawn = spawn;
	dv_user(DVU_CALL, cur_round * 100 + lane, (unsigned long long)k, 0);
	dispatch_async_f(lane_q[lane], it, work);
	dv_user(DVU_RET, cur_round * 100 + lane, (unsigned long long)k, 0);
}

static void work(void *ctx) {
	item_t *it = (item_t *)ctx; int b = lane_bottom[it->lane];
	dv_user(DVU_CALLOUT_BEGIN, it->round * 100 + it->lane, (unsigned long long)it->ticket, 0);
	if (atomic_fetch_add(&inflight[b], 1) != 0) atomic_fetch_add(&overlap_err, 1);
	int prev = atomic_exchange(&last_idx[it->lane][it->thr], it->idx);
	if (prev >= it->idx) atomic_fetch_add(&order_err, 1);
	uint64_t x = ((uint64_t)it->ticket + 1) * 0x9E3779B97F4A7C15ull ^ round_rng;
	x ^= x >> 29;
	if (it->spawn > 0) {
		// a work item submitting to a lane of the same forest from inside its callout (callouts of one bottom are
		// exclusive, so the per-lane counter below is only touched by one thread at a time per bottom; it is atomic anyway)
		int tl = (int)((x >> 7) % (unsigned)nlanes);
		if (lane_bottom[tl] != b) tl = it->lane;     // stay inside this bottom's hierarchy: its callouts are sequential
		submit(tl, MAXT, atomic_fetch_add(&spawn_idx[tl], 1), it->spawn - 1);
	}
	if (x % 11 == 0) usleep((useconds_t)(x % 90)); else if (x % 5 == 0) sched_yield();
	atomic_fetch_sub(&inflight[b], 1);
	atomic_fetch_add(&ran, 1);
	dv_user(DVU_CALLOUT_END, it->round * 100 + it->lane, (unsigned long long)it->ticket, 0);
}

typedef struct { int thr, n; uint64_t rng; } targ_t;
static void *submitter(void *a) {
	targ_t *t = (targ_t *)a; uint64_t r = t->rng; int per_lane[MAXL] = {0};
	pthread_barrier_wait(&bar);
	for (int i = 0; i < t->n; i++) {
		r = r * 6364136223846793005ull + 1442695040888963407ull;
		unsigned mode = (unsigned)(r >> 33) % 16;
		if (mode < 2) {            // let the forest drain: the next push finds lists empty, possibly while drainers unlock
			int spins = 0; while (atomic_load(&ran) < atomic_load(&nitems_total) && spins++ < 2000) sched_yield();
			if (mode == 0) usleep((useconds_t)((r >> 40) % 40));
		} else if (mode < 4) usleep((useconds_t)((r >> 40) % 30));
		int lane = (int)((r >> 44) % (unsigned)nlanes);
		if (mode >= 12) lane = (int)((r >> 50) % 2) % nlanes;    // bursts on the first lanes (the bottoms / their first child)
		submit(lane, t->thr, per_lane[lane]++, (r >> 55) % 8 == 0 ? 1 + (int)((r >> 58) % 2) : 0);
	}
	return NULL;
}

static int root_index(dispatch_queue_t tq) {
	dispatch_queue_global_t g = upcast(tq)._dgq;
	if (g >= _dispatch_root_queues && g < _dispatch_root_queues + _DISPATCH_ROOT_QUEUE_IDX_COUNT) return (int)(g - _dispatch_root_queues);
	return -1;
}

static const intptr_t GQ[] = { DISPATCH_QUEUE_PRIORITY_DEFAULT, DISPATCH_QUEUE_PRIORITY_HIGH, DISPATCH_QUEUE_PRIORITY_LOW,
	QOS_CLASS_UTILITY };
static const dispatch_qos_class_t AQ[] = { QOS_CLASS_USER_INITIATED, QOS_CLASS_DEFAULT, QOS_CLASS_UTILITY, QOS_CLASS_BACKGROUND };

static dispatch_queue_attr_t pick_attr(uint64_t r, int inactive) {
	dispatch_queue_attr_t a = DISPATCH_QUEUE_SERIAL;
	if ((r >> 13) % 4 == 0) a = dispatch_queue_attr_make_with_qos_class(a, AQ[(r >> 17) % 4], (r >> 21) % 3 == 0 ? -2 : 0);
	if (inactive) a = dispatch_queue_attr_make_initially_inactive(a);
	return a;
}

static uint64_t rstep(uint64_t *r) { *r = *r * 6364136223846793005ull + 1442695040888963407ull; return *r >> 11; }

static void build_forest(uint64_t *r) {
	int level_of[MAXL]; nlanes = 0;
	int nb = 1 + (int)(rstep(r) % 2), depth = 1 + (int)(rstep(r) % 4);
	for (int b = 0; b < nb; b++) {
		char lbl[32]; snprintf(lbl, sizeof lbl, "hl%d.b%d", cur_round, b);
		uint64_t x = rstep(r); int mode = (int)(x % 3); dispatch_queue_t q;
		if (mode == 0) q = dispatch_queue_create(lbl, pick_attr(x, 0));
		else if (mode == 1) q = dispatch_queue_create_with_target(lbl, pick_attr(x, 0), dispatch_get_global_queue(GQ[(x >> 5) % 4], 0));
		else { q = dispatch_queue_create(lbl, pick_attr(x, 1)); dispatch_activate(q); }
		lane_q[nlanes] = q; lane_parent[nlanes] = -1; lane_bottom[nlanes] = nlanes; lane_mode[nlanes] = mode; level_of[nlanes] = 1; nlanes++;
	}
	for (int lvl = 2; lvl <= depth; lvl++) {
		int n0 = nlanes;
		for (int p = 0; p < n0; p++) {
			if (level_of[p] != lvl - 1) continue;
			int fan = (int)(rstep(r) % 5);      // 0..4 children (0: this branch stops here)
			if (lvl == 2 && fan == 0) fan = 1;
			for (int c = 0; c < fan && nlanes < MAXL; c++) {
				char lbl[32]; snprintf(lbl, sizeof lbl, "hl%d.%d", cur_round, nlanes);
				uint64_t x = rstep(r); int mode = 10 + (int)(x % 3); dispatch_queue_t q;
				if (mode == 10) q = dispatch_queue_create_with_target(lbl, pick_attr(x, 0), lane_q[p]);
				else if (mode == 11) {      // created inactive with the default target, retargeted, then activated
					q = dispatch_queue_create(lbl, pick_attr(x, 1)); dispatch_set_target_queue(q, lane_q[p]); dispatch_activate(q);
				} else {                    // created inactive on another lane (or a root), retargeted, then activated
					dispatch_queue_t other = (x >> 29) % 2 ? lane_q[(x >> 31) % (unsigned)nlanes] : dispatch_get_global_queue(GQ[(x >> 5) % 4], 0);
					q = dispatch_queue_create_with_target(lbl, pick_attr(x, 1), other); dispatch_set_target_queue(q, lane_q[p]); dispatch_activate(q);
				}
				lane_q[nlanes] = q; lane_parent[nlanes] = p; lane_bottom[nlanes] = lane_bottom[p]; lane_mode[nlanes] = mode; level_of[nlanes] = lvl; nlanes++;
			}
		}
	}
}

int main(int argc, char **argv) {
	uint64_t seed = argc > 1 ? strtoull(argv[1], 0, 10) : 1; int rounds = argc > 2 ? atoi(argv[2]) : 8;
	int permille = argc > 3 ? atoi(argv[3]) : 200; int scale = argc > 4 ? atoi(argv[4]) : 1;
	if (scale < 1) scale = 1;
	printf("O %zu %zu %zu %zu %zu %llu %llu %llu %llu %llu %llu %llu %llu %d\n", sizeof(struct dispatch_lane_s),
			offsetof(struct dispatch_lane_s, dq_state), offsetof(struct dispatch_lane_s, dq_items_tail),
			offsetof(struct dispatch_lane_s, dq_items_head), offsetof(struct dispatch_object_s, do_next),
			(unsigned long long)DISPATCH_QUEUE_ENQUEUED, (unsigned long long)DISPATCH_QUEUE_DIRTY,
			(unsigned long long)DISPATCH_QUEUE_ROLE_MASK, (unsigned long long)DISPATCH_QUEUE_ROLE_BASE_ANON,
			(unsigned long long)DISPATCH_QUEUE_IN_BARRIER, (unsigned long long)DISPATCH_QUEUE_WIDTH_INTERVAL,
			(unsigned long long)DISPATCH_QUEUE_DRAIN_OWNER_MASK, (unsigned long long)DISPATCH_QUEUE_MAX_QOS_MASK,
			(int)DISPATCH_QUEUE_MAX_QOS_SHIFT);
	_Static_assert(offsetof(struct dispatch_continuation_s, do_next) == offsetof(struct dispatch_object_s, do_next), "do_next");
	_Static_assert(offsetof(struct dispatch_lane_s, do_next) == offsetof(struct dispatch_object_s, do_next), "do_next of a lane");
	dv_install(seed, permille);
	_dispatch_verif_cb = hl_cb;
	uint64_t r = seed * 6364136223846793005ull + 1442695040888963407ull;
	for (int i = 0; i < rounds; i++) {
		cur_round = i; rstep(&r); round_rng = r;
		atomic_store(&dv_enabled, 0);       // creation / activation are not part of the protocol under test
		build_forest(&r);
		dv_untrack_all();
		uint64_t st0[MAXL];
		for (int l = 0; l < nlanes; l++) {
			dispatch_lane_t dl = upcast(lane_q[l])._dl;
			st0[l] = *(volatile uint64_t *)&dl->dq_state;
			dv_track(dl, sizeof(struct dispatch_lane_s), i * 100 + l);
		}
		atomic_store(&next_ticket, 0); atomic_store(&ran, 0); atomic_store(&overlap_err, 0); atomic_store(&order_err, 0);
		atomic_store(&nitems_total, 0);
		for (int l = 0; l < MAXL; l++) { atomic_store(&inflight[l], 0); atomic_store(&spawn_idx[l], 0);
			for (int k = 0; k <= MAXT; k++) atomic_store(&last_idx[l][k], -1); }
		atomic_store(&dv_enabled, 1);
		unsigned long long seq0 = atomic_load(&dv_seq);
		int n = 2 + (int)(rstep(&r) % (MAXT - 1));
		pthread_t th[MAXT]; targ_t ta[MAXT];
		pthread_barrier_init(&bar, NULL, (unsigned)n);
		for (int k = 0; k < n; k++) {
			ta[k].thr = k; ta[k].n = (6 + (int)(rstep(&r) % 20)) * scale; ta[k].rng = r ^ ((uint64_t)(k + 1) * 0x9E3779B97F4A7C15ull);
			pthread_create(&th[k], NULL, submitter, &ta[k]);
		}
		for (int k = 0; k < n; k++) pthread_join(th[k], NULL);
		pthread_barrier_destroy(&bar);
		// wait until every item ran and every lane is idle: unlocked, not enqueued, empty (plain reads: not recorded).
		// The watchdog is progress-based: it gives up only after 20 s in which neither the number of items run nor any
		// lane's dq_state / tail changed (a loaded machine only slows progress down)
		int idle = 0; uint64_t last_sig = ~0ull; struct timespec t_last, t_now, t_begin; clock_gettime(CLOCK_MONOTONIC, &t_last); t_begin = t_last;
		for (;;) {
			uint64_t sig = (uint64_t)atomic_load(&ran) * 0x9E3779B97F4A7C15ull + (uint64_t)atomic_load(&nitems_total);
			idle = atomic_load(&ran) == atomic_load(&nitems_total);
			for (int l = 0; l < nlanes; l++) {
				dispatch_lane_t dl = upcast(lane_q[l])._dl; uint64_t st = *(volatile uint64_t *)&dl->dq_state;
				sig = (sig ^ st ^ (uint64_t)(uintptr_t)dl->dq_items_tail) * 0xBF58476D1CE4E5B9ull;
				if ((st & DISPATCH_QUEUE_DRAIN_OWNER_MASK) || (st & DISPATCH_QUEUE_ENQUEUED) || _dq_state_is_in_barrier(st) ||
						dl->dq_items_tail != NULL) idle = 0;
			}
			if (idle) break;
			clock_gettime(CLOCK_MONOTONIC, &t_now);
			if (sig != last_sig) { last_sig = sig; t_last = t_now; }
			else if ((t_now.tv_sec - t_last.tv_sec) + (t_now.tv_nsec - t_last.tv_nsec) / 1e9 > 20.0) break;
			if (t_now.tv_sec - t_begin.tv_sec > 900) break;   // changing for ever without going idle: a livelock, not load
			usleep(50);
		}
		usleep(300);   // let the last drainer leave the objects (reference counts, root-queue bookkeeping)
		unsigned long long seq1 = atomic_load(&dv_seq);
		for (int l = 0; l < nlanes; l++) {
			dispatch_lane_t dl = upcast(lane_q[l])._dl;
			printf("L %d %d %d %" PRIuPTR " %d %d %" PRIu64 " %" PRIu64 " %d %d %d\n", i, l, lane_parent[l], (uintptr_t)dl,
					(int)_dispatch_priority_qos(dl->dq_priority), (int)_dispatch_priority_fallback_qos(dl->dq_priority), st0[l],
					(uint64_t)*(volatile uint64_t *)&dl->dq_state, lane_mode[l], root_index(lane_q[l]->do_targetq), (int)dl->dq_width);
		}
		printf("R %d %d %d %d %d %d %d %d %llu %llu\n", i, nlanes, n, atomic_load(&nitems_total), atomic_load(&ran),
				atomic_load(&overlap_err), atomic_load(&order_err), idle, seq0, seq1);
		// the queues are kept alive until the process exits: no address of a tracked object is reused
		if (!idle) break;    // stuck or stranded: what follows would only wait for the watchdog again
	}
	atomic_store(&dv_enabled, 0);
	dv_dump(stdout);
	return 0;
}
