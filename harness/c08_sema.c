// C08 stress client + recorder (white-box only for the field offsets): rounds of N threads hammering one fresh
// dispatch semaphore through the public API with signals, waits forever, short timed waits (50us..5ms, uptime and
// wall clock) and polling waits (DISPATCH_TIME_NOW), with schedule perturbation inside the library's atomic
// operations and SIGUSR1 storms (handler without SA_RESTART) aimed at threads that may be parked in sem_wait /
// sem_timedwait.  After every round the main thread drains the semaphore with polling waits.
// usage: c08_sema <seed> <rounds> <perturb_permille>
// output: "S <round> <v> <nthreads> <drained> <off_sema> <rescues> <final dsema_value> <final kernel count>" lines (or a final "H <round> <v> <nthreads> <rescues> <stuck>" when
//         waiters stay parked although > 5000 rescue signals arrived and no operation completed for > 15 s), then the recorder dump (E lines; obj = round;
//         offset 0 = dsema_value, offset <off_sema> = dsema_sema).
// harness events: DVU_CALL a = 0 (signal) | 1 (wait), b = timeout argument;
//                 DVU_RET  a = return value, b = the library's clock (same encoding as the timeout) after the return
#include "internal.h"
#include <signal.h>
#include <errno.h>
#include <stddef.h>
#include <time.h>
#include "dv_record.h"

#define MAXT 8
#define MAXOPS 24
enum { O_SIGNAL, O_FOREVER, O_TIMED, O_TIMEDWALL, O_NOW };
typedef struct { int op; unsigned delay_us; uint64_t delta_ns; } op_t;
typedef struct { int round, idx, nops; op_t ops[MAXOPS]; } targ_t;

static dispatch_semaphore_t cur; static pthread_barrier_t bar;
static _Atomic int done_threads; static _Atomic long progress;

static uint64_t rnd(uint64_t *s) { uint64_t z = (*s += 0x9E3779B97F4A7C15ull); z = (z ^ (z >> 30)) * 0xBF58476D1CE4E5B9ull;
	z = (z ^ (z >> 27)) * 0x94D049BB133111EBull; return z ^ (z >> 31); }

static long do_signal(dispatch_semaphore_t s, int round) {
	dv_user(DVU_CALL, round, 0, 0);
	long r = dispatch_semaphore_signal(s);
	dv_user(DVU_RET, round, (unsigned long long)r, 0);
	return r;
}
static long do_wait(dispatch_semaphore_t s, int round, dispatch_time_t timeout, int wall) {
	dv_user(DVU_CALL, round, 1, timeout);
	long r = dispatch_semaphore_wait(s, timeout);
	dispatch_time_t now = wall ? dispatch_walltime(NULL, 0) : dispatch_time(DISPATCH_TIME_NOW, 0);
	dv_user(DVU_RET, round, (unsigned long long)r, now);
	return r;
}
static void *thr(void *a) {
	targ_t *t = (targ_t *)a;
	pthread_barrier_wait(&bar);
	for (int i = 0; i < t->nops; i++) {
		op_t *o = &t->ops[i];
		if (o->delay_us) usleep(o->delay_us);
		switch (o->op) {
		case O_SIGNAL: do_signal(cur, t->round); break;
		case O_FOREVER: do_wait(cur, t->round, DISPATCH_TIME_FOREVER, 0); break;
		case O_TIMED: do_wait(cur, t->round, dispatch_time(DISPATCH_TIME_NOW, (int64_t)o->delta_ns), 0); break;
		case O_TIMEDWALL: do_wait(cur, t->round, dispatch_walltime(NULL, (int64_t)o->delta_ns), 1); break;
		case O_NOW: do_wait(cur, t->round, DISPATCH_TIME_NOW, 0); break;
		}
		atomic_fetch_add(&progress, 1);
	}
	atomic_fetch_add(&done_threads, 1);
	return NULL;
}
static void on_sig(int s) { (void)s; }
// The hook's note for sem_timedwait sits between the call and the library's test of errno (lock.c:219-221); the
// recorder's perturbation (usleep interrupted by SIGUSR1, calloc) must therefore not disturb errno.
static void cb_keep_errno(const volatile void *addr, unsigned size, int kind, int order, unsigned long long a,
		unsigned long long b, int ok, const char *file, int line) {
	int e = errno; dv_cb(addr, size, kind, order, a, b, ok, file, line); errno = e;
}

int main(int argc, char **argv) {
	uint64_t seed = argc > 1 ? strtoull(argv[1], 0, 10) : 1; int nrounds = argc > 2 ? atoi(argv[2]) : 50;
	int permille = argc > 3 ? atoi(argv[3]) : 150;
	struct sigaction sa; memset(&sa, 0, sizeof sa); sa.sa_handler = on_sig; sigaction(SIGUSR1, &sa, NULL); // no SA_RESTART
	dv_install(seed, permille); _dispatch_verif_cb = cb_keep_errno;
	uint64_t r = seed * 0x2545F4914F6CDD1Dull + 99;
	long off_sema = (long)offsetof(struct dispatch_semaphore_s, dsema_sema) - (long)offsetof(struct dispatch_semaphore_s, dsema_value);
	for (int i = 0; i < nrounds; i++) {
		int n = 2 + (int)(rnd(&r) % (MAXT - 1));
		long v = (long)(rnd(&r) % 5); if (v == 4) v = 0;
		int style = (int)(rnd(&r) % 6);	// 0 mixed, 1 pollers vs signallers, 2 timed vs signallers, 3 forever consumers vs signallers,
										// 4 hammer: signallers vs pollers / very short timed waiters, no delays, value kept near 0,
										// 5 poll storm on an (almost) empty semaphore: concurrent undo loops, CAS failures
		if (style == 5) v = 0;
		cur = dispatch_semaphore_create(v);
		dv_track(&cur->dsema_value, (size_t)off_sema + sizeof(cur->dsema_sema), i);
		pthread_t th[MAXT]; static targ_t ta[MAXT];
		for (int k = 0; k < n; k++) {
			targ_t *t = &ta[k]; t->round = i; t->idx = k; t->nops = style >= 4 ? 12 + (int)(rnd(&r) % (MAXOPS - 11)) : 3 + (int)(rnd(&r) % 10);
			int role = style == 0 ? 0 : style == 5 ? (k % 4 == 3 ? 5 : 7) : style == 4 ? (k % 2 == 0 ? 5 : 6) : (k % 2 == 0 ? 1 : 1 + style);	// 1, 5 = signaller
			for (int j = 0; j < t->nops; j++) {
				uint64_t x = rnd(&r); op_t *o = &t->ops[j];
				int op;
				switch (role) {
				case 1: op = (x % 8 == 0) ? O_NOW : O_SIGNAL; break;
				case 2: op = (x % 8 == 0) ? O_SIGNAL : O_NOW; break;
				case 3: op = (x % 8 == 0) ? O_NOW : ((x >> 3) % 4 == 0 ? O_TIMEDWALL : O_TIMED); break;
				case 4: op = (x % 8 == 0) ? O_TIMED : O_FOREVER; break;
				case 5: op = O_SIGNAL; break;
				case 6: op = (x % 4 == 0) ? O_TIMED : O_NOW; break;
				case 7: op = O_NOW; break;
				default: { static const int mix[8] = { O_SIGNAL, O_SIGNAL, O_SIGNAL, O_FOREVER, O_TIMED, O_TIMEDWALL, O_NOW, O_NOW };
					op = mix[x % 8]; }
				}
				o->op = op;
				o->delay_us = (style < 4 && (x >> 8) % 3 == 0) ? (unsigned)((x >> 16) % 400) : 0;
				// 50us .. 5ms, biased to the short end so that timeouts race the signals
				uint64_t y = (x >> 24) % 100;
				if (style >= 4) y = 0;
				o->delta_ns = y < 60 ? 50000 + (x >> 32) % 250000 : (y < 90 ? 300000 + (x >> 32) % 700000 : 1000000 + (x >> 32) % 4000000);
			}
		}
		atomic_store(&done_threads, 0); atomic_store(&progress, 0);
		pthread_barrier_init(&bar, NULL, (unsigned)n + 1);
		for (int k = 0; k < n; k++) pthread_create(&th[k], NULL, thr, &ta[k]);
		pthread_barrier_wait(&bar);
		// signal storm + rescue: when nothing has moved for longer than the longest timed wait, the remaining threads
		// are parked in waits without timeout; feed them (ordinary recorded signal calls by the main thread)
		long last = -1; int idle_ticks = 0, rescues = 0, stalled = 0; struct timespec stall_t0 = {0, 0};
		while (atomic_load(&done_threads) < n) {
			uint64_t x = rnd(&r);
			usleep((useconds_t)(100 + x % 200));
			if (x % 3 == 0) pthread_kill(th[(x >> 8) % (unsigned)n], SIGUSR1);
			long p = atomic_load(&progress);
			if (p != last) { last = p; idle_ticks = 0; if (stalled) clock_gettime(CLOCK_MONOTONIC, &stall_t0); }	// the 15 s below count time WITHOUT progress
			else idle_ticks++;
			if (idle_ticks > 40 && !stalled) { stalled = 1; clock_gettime(CLOCK_MONOTONIC, &stall_t0); }
			if (stalled) { do_signal(cur, i); rescues++; }
			if (stalled && rescues > 5000) {
				// far more permits have been supplied than all threads together can consume (MAXT * MAXOPS), and
				// waiters are still parked: report the round as hung instead of waiting forever
				struct timespec t1; clock_gettime(CLOCK_MONOTONIC, &t1);
				if (t1.tv_sec - stall_t0.tv_sec > 15) {
					printf("H %d %ld %d %d %d\n", i, v, n, rescues, n - atomic_load(&done_threads));
					dv_dump(stdout); fflush(stdout); _exit(0);
				}
			}
		}
		for (int k = 0; k < n; k++) pthread_join(th[k], NULL);
		pthread_barrier_destroy(&bar);
		// quiescent: drain with polling waits; the number that succeed is the number of permits that remained
		long drained = 0;
		while (do_wait(cur, i, DISPATCH_TIME_NOW, 0) == 0) drained++;
		int kcount = -1; sem_getvalue(&cur->dsema_sema, &kcount);   // the words the round ends with (whole-round replay compares them)
		printf("S %d %ld %d %ld %ld %d %ld %d\n", i, v, n, drained, off_sema, rescues, (long)cur->dsema_value, kcount);
		// the object is leaked on purpose: disposing a semaphore whose value is below its initial value crashes
		if (i % 60 == 59) dv_untrack_all();
	}
	dv_dump(stdout);
	return 0;
}
