// dv_record.h — recorder / schedule perturbation for the DISPATCH_VERIF hook (src/shims/atomic.h).
// Header-only; include in a harness that links the hooked library.
//   dv_install(seed, perturb_permille)  install the callback
//   dv_track(addr, len, obj)            events whose address falls in [addr, addr+len) are recorded as (obj, offset)
//   dv_user(kind, obj, a, b)            harness-level event in the calling thread's trace (API call/return, callouts)
//   dv_dump(FILE *)                     one line per event, grouped by thread, in each thread's program order:
//                                       E <thread#> <gettid> <seq> <kind> <order> <obj> <off> <size> <a> <b> <ok> <line>
// Each thread appends to its own buffer (no lock on the hot path); <seq> is a global ticket taken right after
// the operation, i.e. an approximation of the global order that is exact per thread.
#ifndef DV_RECORD_H
#define DV_RECORD_H
#include <pthread.h>
#include <stdint.h>
#include <stdio.h>
#include <stdlib.h>
#include <string.h>
#include <unistd.h>
#include <sched.h>
#include <sys/syscall.h>
#include <stdatomic.h>
#include <errno.h>

typedef void (*dispatch_verif_cb_t)(const volatile void *addr, unsigned size, int kind, int order,
		unsigned long long a, unsigned long long b, int ok, const char *file, int line);
extern dispatch_verif_cb_t volatile _dispatch_verif_cb;

enum { DVU_CALL = 100, DVU_RET = 101, DVU_CALLOUT_BEGIN = 102, DVU_CALLOUT_END = 103, DVU_MARK = 104 };

typedef struct { uint64_t seq; int kind, order, obj, size, ok, line; long off; unsigned long long a, b; } dv_ev_t;
typedef struct dv_thr { struct dv_thr *next; int idx; long tid; dv_ev_t *ev; size_t n, cap; uint64_t rng; } dv_thr_t;
typedef struct { uintptr_t lo, hi; int obj; } dv_range_t;

static dv_thr_t *dv_threads; static pthread_mutex_t dv_mu = PTHREAD_MUTEX_INITIALIZER; static int dv_nthreads;
static __thread dv_thr_t *dv_self; static _Atomic uint64_t dv_seq;
static dv_range_t dv_ranges[64]; static _Atomic int dv_nranges; static int dv_permille; static uint64_t dv_seed;
static _Atomic int dv_enabled;

static dv_thr_t *dv_me(void) {
	dv_thr_t *t = dv_self;
	if (t) return t;
	t = (dv_thr_t *)calloc(1, sizeof *t);
	t->tid = (long)syscall(SYS_gettid);
	t->cap = 1 << 12; t->ev = (dv_ev_t *)malloc(t->cap * sizeof(dv_ev_t));
	pthread_mutex_lock(&dv_mu); t->idx = dv_nthreads++; t->next = dv_threads; dv_threads = t; pthread_mutex_unlock(&dv_mu);
	t->rng = dv_seed * 0x9E3779B97F4A7C15ull + (uint64_t)(t->idx + 1) * 0xBF58476D1CE4E5B9ull;
	dv_self = t;
	return t;
}
static inline uint64_t dv_rand(dv_thr_t *t) { uint64_t x = t->rng; x ^= x << 13; x ^= x >> 7; x ^= x << 17; return t->rng = x; }
static void dv_push(dv_thr_t *t, int kind, int order, int obj, long off, int size, unsigned long long a, unsigned long long b, int ok, int line) {
	if (t->n == t->cap) { t->cap *= 2; t->ev = (dv_ev_t *)realloc(t->ev, t->cap * sizeof(dv_ev_t)); }
	dv_ev_t *e = &t->ev[t->n++];
	e->seq = atomic_fetch_add(&dv_seq, 1); e->kind = kind; e->order = order; e->obj = obj; e->off = off; e->size = size;
	e->a = a; e->b = b; e->ok = ok; e->line = line;
}
static void dv_cb(const volatile void *addr, unsigned size, int kind, int order, unsigned long long a, unsigned long long b,
		int ok, const char *file, int line) {
	(void)file;
	if (!atomic_load_explicit(&dv_enabled, memory_order_relaxed)) return;
	int saved_errno = errno;    // the library tests errno right after some notes: the recorder must not disturb it
	dv_thr_t *t = dv_me();
	uintptr_t p = (uintptr_t)addr; int n = atomic_load_explicit(&dv_nranges, memory_order_acquire);
	for (int i = n - 1; i >= 0; i--) if (p >= dv_ranges[i].lo && p < dv_ranges[i].hi) {   // newest range first (addresses get reused)
		dv_push(t, kind, order, dv_ranges[i].obj, (long)(p - dv_ranges[i].lo), (int)size, a, b, ok, line);
		break;
	}
	if (dv_permille) {
		uint64_t r = dv_rand(t);
		if ((int)(r % 1000) < dv_permille) { if ((r >> 20) & 3) sched_yield(); else usleep((useconds_t)((r >> 24) % 60)); }
	}
	errno = saved_errno;
}
static void dv_install(uint64_t seed, int permille) {
	dv_seed = seed; dv_permille = permille; atomic_store(&dv_enabled, 1); _dispatch_verif_cb = dv_cb;
}
static void dv_track(const volatile void *addr, size_t len, int obj) {
	int i = atomic_load(&dv_nranges);
	dv_ranges[i].lo = (uintptr_t)addr; dv_ranges[i].hi = (uintptr_t)addr + len; dv_ranges[i].obj = obj;
	atomic_store_explicit(&dv_nranges, i + 1, memory_order_release);
}
static void dv_untrack_all(void) { atomic_store(&dv_nranges, 0); }
static void dv_user(int kind, int obj, unsigned long long a, unsigned long long b) {
	if (!atomic_load_explicit(&dv_enabled, memory_order_relaxed)) return;
	dv_push(dv_me(), kind, 0, obj, 0, 0, a, b, 1, 0);
}
static void dv_reset(void) {
	pthread_mutex_lock(&dv_mu); for (dv_thr_t *t = dv_threads; t; t = t->next) t->n = 0; pthread_mutex_unlock(&dv_mu);
}
static void dv_dump(FILE *f) {
	pthread_mutex_lock(&dv_mu);
	for (dv_thr_t *t = dv_threads; t; t = t->next)
		for (size_t i = 0; i < t->n; i++) { dv_ev_t *e = &t->ev[i];
			fprintf(f, "E %d %ld %llu %d %d %d %ld %d %llu %llu %d %d\n", t->idx, t->tid, (unsigned long long)e->seq, e->kind,
					e->order, e->obj, e->off, e->size, e->a, e->b, e->ok, e->line); }
	pthread_mutex_unlock(&dv_mu);
}
#endif
