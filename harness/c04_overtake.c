// C04 / C02 witness: the dispatch_barrier_sync fast path (dispatch_sync on a serial queue) overtakes an item that was
// submitted EARLIER -- by the same thread -- with dispatch_async, and whose dispatch_async call had returned.
// Schedule (four threads; the DISPATCH_VERIF hook is used only to HOLD two of them at one atomic operation each):
//   O  a root-queue worker drains the queue: it ran item z0, found the list empty and is about to give the drain lock back
//      (held at the load that starts the rmw loop of _dispatch_queue_drain_try_unlock; max_qos of dq_state is still 4 from z0's wakeup)
//   U  dispatch_[barrier_]async(x1): exchanges dq_items_tail (list was empty: U owes the wakeup) and is held before it
//   V  dispatch_async(x2): list not empty, _dispatch_queue_need_override false (max_qos 4 >= 4): no wakeup; the call returns
//   O  released: unlock commits (DIRTY clear) -> dq_state is the idle word although x1, x2 are on the list
//   V  dispatch_barrier_sync(b) / dispatch_sync(b): _dispatch_queue_try_acquire_barrier_sync succeeds on the idle word: b runs first
// usage: c04_overtake <concurrent|serial>
// output: OVERTAKE <kind> o_held=.. u_held=.. state_locked=.. state_after_x2=.. state_idle=.. b_ran_before_x2=<0|1> ...
#include "internal.h"
#include <inttypes.h>
#include "dv_record.h"

static dispatch_lane_t dl; static pthread_t u_thread, o_thread; static _Atomic int o_known, z0_done, o_held, release_o, u_held, release_u;
static _Atomic int ran0, ran1, ran2, b_saw_x2, b_ran; static dispatch_semaphore_t z0_go;
static void hold_cb(const volatile void *addr, unsigned size, int kind, int order, unsigned long long a, unsigned long long b,
		int ok, const char *file, int line) {
	(void)size; (void)order; (void)a; (void)b; (void)ok; (void)file; (void)line;
	if (!dl) return;
	if ((uintptr_t)addr == (uintptr_t)&dl->dq_items_tail && kind != 1 && pthread_equal(pthread_self(), u_thread)) {
		if (atomic_exchange(&u_held, 1)) return;
		for (int k = 0; k < 100000 && !atomic_load(&release_u); k++) usleep(50);
	} else if ((uintptr_t)addr == (uintptr_t)&dl->dq_state && kind == 1 && atomic_load(&o_known) && atomic_load(&z0_done) &&
			pthread_equal(pthread_self(), o_thread)) {
		if (atomic_exchange(&o_held, 1)) return;
		for (int k = 0; k < 100000 && !atomic_load(&release_o); k++) usleep(50);
	}
}
static void w0(void *c) { (void)c; o_thread = pthread_self(); atomic_store(&o_known, 1);
	dispatch_semaphore_wait(z0_go, DISPATCH_TIME_FOREVER); atomic_store(&ran0, 1); atomic_store(&z0_done, 1); }
static void w1(void *c) { (void)c; atomic_store(&ran1, 1); }
static void w2(void *c) { (void)c; atomic_store(&ran2, 1); }
static void wb(void *c) { (void)c; atomic_store(&b_saw_x2, atomic_load(&ran2)); atomic_store(&b_ran, 1); }
static int serial_q;
static void *u_main(void *q) { if (serial_q) dispatch_async_f((dispatch_queue_t)q, NULL, w1); else dispatch_barrier_async_f((dispatch_queue_t)q, NULL, w1); return NULL; }
static void *releaser(void *a) { (void)a; usleep(300000); atomic_store(&release_u, 1); return NULL; }
static uint64_t rd(void) { return *(volatile uint64_t *)&dl->dq_state; }

int main(int argc, char **argv) {
	serial_q = argc > 1 && !strcmp(argv[1], "serial");
	dispatch_queue_t q = dispatch_queue_create("ot", serial_q ? DISPATCH_QUEUE_SERIAL : DISPATCH_QUEUE_CONCURRENT);
	dl = upcast(q)._dl; z0_go = dispatch_semaphore_create(0);
	uint64_t idle = rd();
	_dispatch_verif_cb = hold_cb;
	// z0: run by a worker that takes the drain lock (a barrier item on the concurrent queue, so that it runs inline in the drainer)
	if (serial_q) dispatch_async_f(q, NULL, w0); else dispatch_barrier_async_f(q, NULL, w0);
	for (int k = 0; k < 100000 && !atomic_load(&o_known); k++) usleep(50);
	dispatch_semaphore_signal(z0_go);
	for (int k = 0; k < 100000 && !atomic_load(&o_held); k++) usleep(50);
	uint64_t st_locked = rd();
	pthread_create(&u_thread, NULL, u_main, q);
	for (int k = 0; k < 100000 && !atomic_load(&u_held); k++) usleep(50);
	// V = this thread
	dispatch_async_f(q, NULL, w2);
	uint64_t st_x2 = rd();
	atomic_store(&release_o, 1);
	for (int k = 0; k < 20000 && rd() != idle; k++) usleep(50);
	uint64_t st_idle = rd();
	pthread_t rt; pthread_create(&rt, NULL, releaser, NULL);   // U goes on 300 ms later: a correct library makes b wait for it
	if (serial_q) dispatch_sync_f(q, NULL, wb); else dispatch_barrier_sync_f(q, NULL, wb);
	int saw = atomic_load(&b_saw_x2), u_released_at_b = atomic_load(&release_u);
	pthread_join(rt, NULL);
	pthread_join(u_thread, NULL);
	for (int k = 0; k < 100000 && !(atomic_load(&ran1) && atomic_load(&ran2)); k++) usleep(50);
	printf("OVERTAKE %s o_held=%d u_held=%d idle=%" PRIu64 " state_locked=%" PRIu64 " state_after_x2=%" PRIu64 " state_before_sync=%" PRIu64
			" b_ran=%d b_ran_before_x2=%d u_released_when_b_returned=%d ran0=%d ran1=%d ran2=%d\n", serial_q ? "serial" : "concurrent",
			atomic_load(&o_held), atomic_load(&u_held), idle, st_locked, st_x2, st_idle, atomic_load(&b_ran), !saw, u_released_at_b,
			atomic_load(&ran0), atomic_load(&ran1), atomic_load(&ran2));
	return 0;
}
