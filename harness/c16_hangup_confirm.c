// C16 witness: a peer hang-up (EPOLLHUP) delivered by the manager thread races the acknowledgement of the deferred delete by
// _dispatch_source_invoke2 on the target queue (source.c:788 runs on whatever queue the source is invoked on).
// The manager publishes DU_STATE_NEEDS_DELETE (_dispatch_event_merge_hangup), a worker invoking the source sees it,
// unregisters the muxed unote from the worker thread and finalizes (DSF_DELETED); the manager then reads du_state == 0 in
// _dispatch_source_merge_evt and finalizes again: DISPATCH_INTERNAL_CRASH "Source finalized twice" (and the muxnote lists
// are edited by two threads).  The DISPATCH_VERIF callback only holds the manager right after its du_state store.
// exit 0: survived; killed by SIGILL: the crash.
#include "internal.h"
#include <semaphore.h>
static volatile uintptr_t *du_addr; static volatile int held, go;
static void cb(const volatile void *addr, unsigned size, int kind, int order, unsigned long long a, unsigned long long b, int ok,
		const char *file, int line) {
	(void)size; (void)order; (void)a; (void)ok; (void)file; (void)line;
	if (addr == (const volatile void *)du_addr && kind == DV_STORE && (b & DU_STATE_NEEDS_DELETE) && !held) {
		held = 1; while (!go) usleep(200);
	}
}
static int fdr; static sem_t fired;
static void h(void *c) { (void)c; char b[8]; (void)!read(fdr, b, sizeof b); sem_post(&fired); }
static void ch(void *c) { (void)c; }
static void noop(void *c) { (void)c; }
int main(void) {
	int p[2]; if (pipe(p)) return 2; fdr = p[0];
	fcntl(p[0], F_SETFL, O_NONBLOCK);
	sem_init(&fired, 0, 0);
	dispatch_queue_t tq = dispatch_queue_create("tq", DISPATCH_QUEUE_SERIAL);
	dispatch_source_t ds = dispatch_source_create(DISPATCH_SOURCE_TYPE_READ, (uintptr_t)p[0], 0, tq);
	dispatch_source_set_event_handler_f(ds, h);
	dispatch_source_set_cancel_handler_f(ds, ch);
	du_addr = (volatile uintptr_t *)&ds->ds_refs->du_state;
	_dispatch_verif_cb = cb;
	dispatch_activate(ds);
	(void)!write(p[1], "x", 1);
	sem_wait(&fired);                       // registered, one event delivered
	for (int i = 0; i < 20; i++) { dispatch_sync_f(tq, NULL, noop); usleep(2000); }   // re-armed on the manager queue
	close(p[1]);                            // peer goes away: EPOLLHUP
	for (int i = 0; i < 5000 && !held; i++) usleep(200);
	if (!held) { printf("hang-up not observed\n"); return 3; }
	dispatch_source_cancel(ds);             // any wakeup will do: the source is invoked on its target queue
	for (int i = 0; i < 50; i++) { dispatch_sync_f(tq, NULL, noop); usleep(2000); }
	printf("flags while the manager is inside the hang-up delivery: %#x du_state=%#lx\n", (unsigned)ds->dq_atomic_flags,
			(unsigned long)ds->ds_refs->du_state);
	fflush(stdout);
	go = 1;
	usleep(300000);
	printf("survived: flags=%#x\n", (unsigned)ds->dq_atomic_flags);
	return 0;
}
