// C16 stress client + recorder (white-box: includes the library's internal.h for field offsets only; every operation
// on the sources goes through the public API).
// Rounds: one dispatch source per round (timer / DATA_ADD / read pipe / write pipe / signal) on a fresh serial target
// queue carrying a queue-specific marker, events delivered continuously by a feeder, and dispatch_source_cancel or
// dispatch_source_cancel_and_wait injected at one life-cycle point (scenario), with schedule perturbation inside the
// library's atomic operations (DISPATCH_VERIF hook).
// usage: c16_cancel <seed> <rounds> <perturb_permille> [first_round_code]
// output: one "R ..." line per round (white-box observations made inside the cancel handler / after cancel_and_wait and
// the final state), then the recorder dump: E lines, obj = 8*round + field (0 dq_atomic_flags, 1 ds_handler[3],
// 2 ds_pending_data, 3 du_state, 4 dq_state); user events carry obj = 8*round.  Last line before the dump: MGR <lock value of
// the manager thread>; last line of all: "DONE <rounds>" (its absence means a truncated output).
#include "internal.h"
#include <signal.h>
#include <errno.h>
#include <fcntl.h>
#include <semaphore.h>
#include <dirent.h>
#include <inttypes.h>
#include "dv_record.h"

enum { T_TIMER, T_DATA, T_READ, T_WRITE, T_SIGNAL, T_COUNT };
enum { S_PRE, S_POST, S_HANDLER, S_TQITEM, S_THREAD, S_TWICE, S_CAW, S_CAW_PRE, S_CAW2, S_HANGUP, S_SUSPENDED, S_REGH, S_LATE, S_COUNT };
// user event codes (a): API calls
enum { A_CANCEL = 1, A_CAW = 2, A_ACTIVATE = 3, A_RELEASE = 4, A_RESUME = 5 };
// cancel contexts (b)
enum { CX_THREAD = 0, CX_HANDLER = 1, CX_TQITEM = 2 };
// marks (a)
enum { M_END = 99, M_REUSE_FIRED = 50 };

static char qkey;
static int epfd = -1;
static uint64_t g_seed; static int g_permille;

typedef struct round_s {
	int id, type, scen, has_ch, rel_early, cancel_at, nthreads;
	dispatch_source_t ds; dispatch_queue_t tq;
	int fd_r, fd_w;                 // pipe (read / write types)
	volatile int stop, fired, ch_runs, cancels_started;
	sem_t done, fired_sem, reuse_sem, late_go;
	volatile int late_held;
	// observations in the cancel handler (or after cancel_and_wait returned)
	int ob_flags_ok, ob_du_state0, ob_monitored, ob_ontq, reuse_ok, timeouts;
	uint32_t ob_flags; uint64_t rng;
	// reuse
	int nfd_r, nfd_w; dispatch_source_t ds2;
	pthread_t feeder; int have_feeder;
} round_t;

static uint64_t rr(round_t *r) { uint64_t x = r->rng; x ^= x << 13; x ^= x >> 7; x ^= x << 17; return r->rng = x; }
static void set_nonblock(int fd) { fcntl(fd, F_SETFL, fcntl(fd, F_GETFL) | O_NONBLOCK); }
static int sem_wait_s(sem_t *s, int secs) {    // plain bounded wait: only where the outcome decides no verdict
	struct timespec ts; clock_gettime(CLOCK_REALTIME, &ts); ts.tv_sec += secs;
	int rc; while ((rc = sem_timedwait(s, &ts)) != 0 && errno == EINTR) {} return rc;
}
// watchdog for the waits that decide a verdict (cancel handler ran, reused descriptor fired): progress-based.  It gives up
// only when nothing this harness can see (a callout starting or ending, an API call returning) has happened for g_wait_s
// seconds in a row (C16_WAIT_S, default 20); elapsed time alone never ends it (safety net: 60 such periods).
static volatile unsigned long g_progress; static int g_wait_s = 20;
#define PROGRESS() ((void)__sync_fetch_and_add(&g_progress, 1))
static int sem_wait_progress(sem_t *s) {
	unsigned long last = g_progress; int idle = 0;
	for (long total = 0; total < 60L * g_wait_s; total++) {
		struct timespec ts; clock_gettime(CLOCK_REALTIME, &ts); ts.tv_sec += 1;
		int rc; while ((rc = sem_timedwait(s, &ts)) != 0 && errno == EINTR) {}
		if (rc == 0) return 0;
		unsigned long now = g_progress;
		if (now != last) { last = now; idle = 0; } else if (++idle >= g_wait_s) return -1;
	}
	return -1;
}
static void find_epfd(void) {
	if (epfd >= 0) return;
	DIR *d = opendir("/proc/self/fd"); struct dirent *de; char p[64], l[128];
	if (!d) return;
	while ((de = readdir(d))) {
		snprintf(p, sizeof p, "/proc/self/fd/%s", de->d_name);
		ssize_t n = readlink(p, l, sizeof l - 1); if (n <= 0) continue; l[n] = 0;
		if (strstr(l, "eventpoll")) { epfd = atoi(de->d_name); break; }
	}
	closedir(d);
}
// is descriptor fd in the library's epoll set? (1 yes, 0 no, -1 unknown)
static int monitored(int fd) {
	find_epfd(); if (epfd < 0) return -1;
	char p[64], line[256]; snprintf(p, sizeof p, "/proc/self/fdinfo/%d", epfd);
	FILE *f = fopen(p, "r"); if (!f) return -1;
	int hit = 0, t;
	while (fgets(line, sizeof line, f)) if (sscanf(line, "tfd: %d", &t) == 1 && t == fd) hit = 1;
	fclose(f); return hit;
}
static int src_fd(round_t *r) { return r->type == T_READ ? r->fd_r : r->type == T_WRITE ? r->fd_w : -1; }

static void observe(round_t *r) {
	// white-box observation of the state the API contract promises at this point
	dispatch_source_t ds = r->ds;
	uint32_t f = *(volatile uint32_t *)&ds->dq_atomic_flags;
	r->ob_flags = f;
	r->ob_flags_ok = (f & DSF_CANCELED) && (f & DSF_DELETED);
	r->ob_du_state0 = (*(volatile uintptr_t *)&ds->ds_refs->du_state == 0);
	int fd = src_fd(r);
	r->ob_monitored = fd >= 0 ? monitored(fd) : -1;
}

static void ev2_handler(void *ctx) {
	round_t *r = (round_t *)ctx; char b[8];
	PROGRESS();
	if (read(r->nfd_r, b, sizeof b) > 0) { dv_user(DVU_MARK, 8 * r->id, M_REUSE_FIRED, 0); sem_post(&r->reuse_sem); }
}
static void ch2_handler(void *ctx) { round_t *r = (round_t *)ctx; PROGRESS(); close(r->nfd_r); close(r->nfd_w); sem_post(&r->reuse_sem); }

// the API contract allows closing the descriptor once cancellation is complete; the descriptor number is then reused
static void close_and_reuse(round_t *r) {
	int fd = src_fd(r); if (fd < 0) return;
	close(fd); if (r->type == T_READ) r->fd_r = -1; else r->fd_w = -1;
	int p[2]; if (pipe(p) != 0) return;
	r->nfd_r = p[0]; r->nfd_w = p[1]; set_nonblock(p[0]);
	r->ds2 = dispatch_source_create(DISPATCH_SOURCE_TYPE_READ, (uintptr_t)p[0], 0, dispatch_get_global_queue(0, 0));
	dispatch_set_context(r->ds2, r);
	dispatch_source_set_event_handler_f(r->ds2, ev2_handler);
	dispatch_source_set_cancel_handler_f(r->ds2, ch2_handler);
	dispatch_activate(r->ds2);
	(void)!write(p[1], "x", 1);
}

static void do_cancel(round_t *r, int cx) {
	__sync_fetch_and_add(&r->cancels_started, 1);
	dv_user(DVU_CALL, 8 * r->id, A_CANCEL, (unsigned long long)cx);
	dispatch_source_cancel(r->ds);
	dv_user(DVU_RET, 8 * r->id, A_CANCEL, (unsigned long long)cx);
	PROGRESS();
}
static void do_caw(round_t *r) {
	__sync_fetch_and_add(&r->cancels_started, 1);
	dv_user(DVU_CALL, 8 * r->id, A_CAW, 0);
	dispatch_source_cancel_and_wait(r->ds);
	dv_user(DVU_RET, 8 * r->id, A_CAW, 0);
	PROGRESS();
}

static void ev_handler(void *ctx) {
	round_t *r = (round_t *)ctx;
	int ontq = dispatch_get_specific(&qkey) == (void *)r;
	dv_user(DVU_CALLOUT_BEGIN, 8 * r->id, 0, (unsigned long long)ontq);
	PROGRESS();
	int n = __sync_add_and_fetch(&r->fired, 1);
	char b[64];
	if (r->type == T_READ) { (void)!read(r->fd_r, b, 1 + (size_t)(rr(r) % 8)); }
	else if (r->type == T_WRITE) { (void)!write(r->fd_w, "w", 1); }
	if (n <= 3) sem_post(&r->fired_sem);
	if ((r->scen == S_HANDLER || (r->scen == S_TWICE && (r->id & 1))) && n == r->cancel_at) {
		do_cancel(r, CX_HANDLER);
		if (r->scen == S_HANDLER && (rr(r) & 1)) do_cancel(r, CX_HANDLER); // cancelling twice from the handler
	}
	uint64_t x = rr(r);
	if (x % 4 == 0) usleep((useconds_t)((x >> 8) % 150)); else if (x % 4 == 1) sched_yield();
	dv_user(DVU_CALLOUT_END, 8 * r->id, 0, 0);
	PROGRESS();
}
static void ch_handler(void *ctx) {
	round_t *r = (round_t *)ctx;
	int ontq = dispatch_get_specific(&qkey) == (void *)r;
	dv_user(DVU_CALLOUT_BEGIN, 8 * r->id, 1, (unsigned long long)ontq);
	PROGRESS();
	__sync_add_and_fetch(&r->ch_runs, 1);
	r->ob_ontq = ontq;
	observe(r);
	close_and_reuse(r);
	dv_user(DVU_CALLOUT_END, 8 * r->id, 1, 0);
	sem_post(&r->done);
}
static void tq_item(void *ctx) { do_cancel((round_t *)ctx, CX_TQITEM); }
// registration handler (runs on the target queue once the source is installed): lets events accumulate, then cancels
static void reg_handler(void *ctx) { round_t *r = (round_t *)ctx;
	dv_user(DVU_CALLOUT_BEGIN, 8 * r->id, 2, (unsigned long long)(dispatch_get_specific(&qkey) == (void *)r));
	PROGRESS(); usleep((useconds_t)(200 + rr(r) % 800)); do_cancel(r, CX_TQITEM);
	dv_user(DVU_CALLOUT_END, 8 * r->id, 2, 0); }
static void noop(void *ctx) { (void)ctx; }

static void *feeder(void *a) {
	round_t *r = (round_t *)a; char b[256]; uint64_t x = r->rng ^ 0x5851F42D4C957F2Dull;
	while (!r->stop) {
		x = x * 6364136223846793005ull + 1442695040888963407ull;
		switch (r->type) {
		case T_DATA: dispatch_source_merge_data(r->ds, 1); break;
		case T_READ: if (r->fd_w >= 0) (void)!write(r->fd_w, "abcd", 1 + (size_t)((x >> 40) % 4)); break;
		case T_WRITE: if (r->fd_r >= 0) (void)!read(r->fd_r, b, sizeof b); break;
		case T_SIGNAL: kill(getpid(), SIGUSR2); break;
		}
		if ((x >> 33) % 3) usleep((useconds_t)((x >> 20) % 200)); else sched_yield();
	}
	return NULL;
}

// S_LATE: a cancel from another thread that lands between the owner's read of dq_atomic_flags (source.c:803) and the start
// of the event handler (:809).  The hook holds the thread that owns the source's drain lock at its read of a non-zero
// ds_pending_data (:804, right after the flags read), lets the canceller go and waits until CANCELED is in the word (bounded:
// no verdict depends on the hold succeeding).  The handler invocation that follows started while CANCELED was set.
static round_t *volatile g_late;
static void c16_cb(const volatile void *addr, unsigned size, int kind, int order, unsigned long long a, unsigned long long b,
		int ok, const char *file, int line) {
	dv_cb(addr, size, kind, order, a, b, ok, file, line);
	round_t *r = g_late;
	if (!r || kind != DV_LOAD || a == 0 || r->late_held || addr != (const volatile void *)&r->ds->ds_refs->ds_pending_data) return;
	uint32_t me = (uint32_t)syscall(SYS_gettid) & DLOCK_OWNER_MASK;
	if (((uint32_t)*(volatile uint64_t *)&r->ds->dq_state & DLOCK_OWNER_MASK) != me) return;
	if (*(volatile uint32_t *)&r->ds->dq_atomic_flags & DSF_CANCELED) return;
	int saved_errno = errno;
	r->late_held = 1; sem_post(&r->late_go);
	for (int i = 0; i < 4000 && !(*(volatile uint32_t *)&r->ds->dq_atomic_flags & DSF_CANCELED); i++) usleep(50);
	errno = saved_errno;
}

typedef struct { round_t *r; int what, delay_us, wait_fired; } canc_t;
static void *canceller(void *a) {
	canc_t *c = (canc_t *)a; round_t *r = c->r;
	if (c->wait_fired) sem_wait_s(&r->fired_sem, 2);   // (events may legitimately never come: 2 s then cancel anyway)
	if (r->scen == S_LATE) sem_wait_s(&r->late_go, 2);  // (the owner may never reach the latch: 2 s then cancel anyway)
	if (c->delay_us) usleep((useconds_t)c->delay_us);
	if (c->what == A_CAW) do_caw(r); else do_cancel(r, CX_THREAD);
	return NULL;
}

static void run_round(round_t *r) {
	int id = r->id;
	char lbl[32]; snprintf(lbl, sizeof lbl, "c16.tq.%d", id);
	r->tq = dispatch_queue_create(lbl, DISPATCH_QUEUE_SERIAL);
	dispatch_queue_set_specific(r->tq, &qkey, r, NULL);
	sem_init(&r->done, 0, 0); sem_init(&r->fired_sem, 0, 0); sem_init(&r->reuse_sem, 0, 0); sem_init(&r->late_go, 0, 0);
	r->fd_r = r->fd_w = r->nfd_r = r->nfd_w = -1; r->ob_monitored = -2; r->reuse_ok = -1;
	if (r->type == T_READ || r->type == T_WRITE) {
		int p[2]; if (pipe(p) != 0) { perror("pipe"); exit(3); }
		r->fd_r = p[0]; r->fd_w = p[1]; set_nonblock(p[0]); set_nonblock(p[1]);
	}
	switch (r->type) {
	case T_TIMER: r->ds = dispatch_source_create(DISPATCH_SOURCE_TYPE_TIMER, 0, 0, r->tq);
		dispatch_source_set_timer(r->ds, dispatch_time(DISPATCH_TIME_NOW, 20000 + (int64_t)(rr(r) % 200000)),
				50000 + rr(r) % 300000, 0); break;
	case T_DATA: r->ds = dispatch_source_create(DISPATCH_SOURCE_TYPE_DATA_ADD, 0, 0, r->tq); break;
	case T_READ: r->ds = dispatch_source_create(DISPATCH_SOURCE_TYPE_READ, (uintptr_t)r->fd_r, 0, r->tq); break;
	case T_WRITE: r->ds = dispatch_source_create(DISPATCH_SOURCE_TYPE_WRITE, (uintptr_t)r->fd_w, 0, r->tq); break;
	case T_SIGNAL: r->ds = dispatch_source_create(DISPATCH_SOURCE_TYPE_SIGNAL, SIGUSR2, 0, r->tq); break;
	}
	if (!r->ds) { fprintf(stderr, "source create failed type %d\n", r->type); exit(3); }
	dispatch_source_t ds = r->ds;
	dv_untrack_all();
	dv_track(&ds->dq_atomic_flags, sizeof(ds->dq_atomic_flags), 8 * id);
	dv_track((void *)&ds->ds_refs->ds_handler[0], sizeof(ds->ds_refs->ds_handler), 8 * id + 1);
	dv_track(&ds->ds_refs->ds_pending_data, sizeof(uint64_t), 8 * id + 2);
	dv_track(&ds->ds_refs->du_state, sizeof(uintptr_t), 8 * id + 3);
	dv_track(&ds->dq_state, sizeof(uint64_t), 8 * id + 4);
	dispatch_set_context(ds, r);
	dispatch_source_set_event_handler_f(ds, ev_handler);
	if (r->has_ch) dispatch_source_set_cancel_handler_f(ds, ch_handler);
	if (r->scen == S_REGH) dispatch_source_set_registration_handler_f(ds, reg_handler);

	pthread_t th[2]; canc_t ca[2]; int nth = 0;
	if (r->scen == S_LATE) g_late = r;
	if (r->scen == S_PRE) { do_cancel(r, CX_THREAD); if (rr(r) & 1) do_cancel(r, CX_THREAD); }
	if (r->scen == S_CAW_PRE) {
		do_caw(r);   // cancel_and_wait on an inactive source activates it itself
	} else {
		dv_user(DVU_CALL, 8 * id, A_ACTIVATE, 0); dispatch_activate(ds); dv_user(DVU_RET, 8 * id, A_ACTIVATE, 0);
	}
	r->have_feeder = 1; if (r->type == T_DATA) dispatch_retain(ds);
	pthread_create(&r->feeder, NULL, feeder, r);
	switch (r->scen) {
	case S_POST: do_cancel(r, CX_THREAD); break;
	case S_HANDLER: break; // the handler cancels at its cancel_at-th run
	case S_TQITEM:
		sem_wait_s(&r->fired_sem, 2);
		if (rr(r) & 1) usleep((useconds_t)(rr(r) % 400));
		dispatch_async_f(r->tq, r, tq_item); break;
	case S_THREAD: case S_HANGUP:
		if (r->scen == S_HANGUP) {
			sem_wait_s(&r->fired_sem, 2);
			// the peer goes away: read source sees EOF/HUP, write source sees the reader gone
			r->stop = 1; pthread_join(r->feeder, NULL); r->have_feeder = 0;
			if (r->type == T_READ) { close(r->fd_w); r->fd_w = -1; } else { close(r->fd_r); r->fd_r = -1; }
			usleep((useconds_t)(rr(r) % 3000));
		}
		ca[0] = (canc_t){ r, A_CANCEL, (int)(rr(r) % 600), r->scen == S_THREAD && (rr(r) & 1) };
		pthread_create(&th[nth], NULL, canceller, &ca[nth]); nth++; break;
	case S_LATE:
		ca[0] = (canc_t){ r, A_CANCEL, 0, 0 };
		pthread_create(&th[nth], NULL, canceller, &ca[nth]); nth++; break;
	case S_TWICE:
		ca[0] = (canc_t){ r, A_CANCEL, (int)(rr(r) % 300), (int)(rr(r) & 1) };
		pthread_create(&th[nth], NULL, canceller, &ca[nth]); nth++;
		if (!(id & 1)) { ca[1] = (canc_t){ r, A_CANCEL, (int)(rr(r) % 300), ca[0].wait_fired };
			pthread_create(&th[nth], NULL, canceller, &ca[nth]); nth++; }
		break;
	case S_CAW:
		ca[0] = (canc_t){ r, A_CAW, (int)(rr(r) % 600), (int)(rr(r) & 1) };
		pthread_create(&th[nth], NULL, canceller, &ca[nth]); nth++; break;
	case S_CAW2:
		ca[0] = (canc_t){ r, A_CAW, (int)(rr(r) % 300), (int)(rr(r) & 1) };
		pthread_create(&th[nth], NULL, canceller, &ca[nth]); nth++;
		ca[1] = (canc_t){ r, (rr(r) & 1) ? A_CAW : A_CANCEL, (int)(rr(r) % 300), ca[0].wait_fired };
		pthread_create(&th[nth], NULL, canceller, &ca[nth]); nth++; break;
	case S_SUSPENDED:
		sem_wait_s(&r->fired_sem, 2);
		dispatch_suspend(ds);
		do_cancel(r, CX_THREAD);
		usleep((useconds_t)(rr(r) % 1500));
		dv_user(DVU_CALL, 8 * id, A_RESUME, 0); dispatch_resume(ds); dv_user(DVU_RET, 8 * id, A_RESUME, 0);
		break;
	default: break;
	}
	for (int k = 0; k < nth; k++) pthread_join(th[k], NULL);
	g_late = NULL;
	if (r->has_ch) {
		if (sem_wait_progress(&r->done) != 0) r->timeouts |= 1;     // cancel handler never ran
	} else {
		// cancel_and_wait has returned in every thread that called it: the contract of the cancel handler holds here
		observe(r);
		close_and_reuse(r);
	}
	// grace period with the feeder still running: nothing may fire any more
	usleep((useconds_t)(500 + rr(r) % 1500));
	r->stop = 1;
	if (r->have_feeder) { pthread_join(r->feeder, NULL); if (r->type == T_DATA) dispatch_release(ds); }
	if (r->ds2) {
		if (sem_wait_progress(&r->reuse_sem) != 0) { r->reuse_ok = 0; } else r->reuse_ok = 1;
		dispatch_source_cancel(r->ds2);
		if (sem_wait_progress(&r->reuse_sem) != 0) r->timeouts |= 4;
		dispatch_release(r->ds2);
	}
	// final state: wait (bounded) until the handler slots have been released, then read it
	uint32_t ff = 0; uintptr_t h0 = 1, h1 = 1, h2 = 1, dus = 1; uint64_t pend = 1;
	for (long i = 0; i < 1000L * g_wait_s; i++) {   // every iteration is a round trip through the target queue, not a clock reading
		dispatch_sync_f(r->tq, NULL, noop);
		ff = *(volatile uint32_t *)&ds->dq_atomic_flags;
		h0 = (uintptr_t)ds->ds_refs->ds_handler[0]; h1 = (uintptr_t)ds->ds_refs->ds_handler[1]; h2 = (uintptr_t)ds->ds_refs->ds_handler[2];
		dus = *(volatile uintptr_t *)&ds->ds_refs->du_state; pend = *(volatile uint64_t *)&ds->ds_refs->ds_pending_data;
		if ((ff & DSF_DELETED) && !h0 && !h1 && !h2) break;
		usleep(1000);
	}
	if (!((ff & DSF_DELETED) && !h0 && !h1 && !h2)) r->timeouts |= 2;
	dv_user(DVU_MARK, 8 * id, M_END, 0);
	if (r->fd_r >= 0) close(r->fd_r); if (r->fd_w >= 0) close(r->fd_w);
	printf("R %d type=%d scen=%d has_ch=%d fired=%d ch_runs=%d ob_flags=%u ob_flags_ok=%d ob_du0=%d ob_mon=%d ob_ontq=%d reuse=%d "
			"timeouts=%d final_flags=%u h0=%d h1=%d h2=%d du_state=%" PRIuPTR " pending=%" PRIu64 " cancels=%d\n",
			id, r->type, r->scen, r->has_ch, r->fired, r->ch_runs, r->ob_flags, r->ob_flags_ok, r->ob_du_state0, r->ob_monitored,
			r->ob_ontq, r->reuse_ok, r->timeouts, ff, h0 != 0, h1 != 0, h2 != 0, dus, pend, r->cancels_started);
	fflush(stdout);
	dv_user(DVU_CALL, 8 * id, A_RELEASE, 0);
	dispatch_release(ds);
	dispatch_release(r->tq);
}

int main(int argc, char **argv) {
	g_seed = argc > 1 ? strtoull(argv[1], 0, 10) : 1; int nrounds = argc > 2 ? atoi(argv[2]) : 55;
	g_permille = argc > 3 ? atoi(argv[3]) : 150;
	int first = argc > 4 ? atoi(argv[4]) : -1;    // type*100+scen of round 0 (replay of one configuration)
	signal(SIGPIPE, SIG_IGN);
	sigset_t ss; sigemptyset(&ss); sigaddset(&ss, SIGUSR2); pthread_sigmask(SIG_BLOCK, &ss, NULL);
	if (getenv("C16_WAIT_S") && atoi(getenv("C16_WAIT_S")) > 0) g_wait_s = atoi(getenv("C16_WAIT_S"));
	dv_install(g_seed, g_permille); _dispatch_verif_cb = c16_cb;
	round_t *rounds = (round_t *)calloc((size_t)nrounds, sizeof(round_t));
	uint64_t x = g_seed * 0x9E3779B97F4A7C15ull + 0xD1B54A32D192ED03ull;
	for (int i = 0; i < nrounds; i++) {
		round_t *r = &rounds[i];
		x = x * 6364136223846793005ull + 1442695040888963407ull;
		r->id = i; r->rng = x | 1;
		// the first T_COUNT*S_COUNT rounds enumerate every (type, scenario) pair, later rounds are random
		int code = i % (T_COUNT * S_COUNT);
		if (i >= T_COUNT * S_COUNT) code = (int)((x >> 33) % (T_COUNT * S_COUNT));
		r->type = code % T_COUNT; r->scen = code / T_COUNT;
		if (first >= 0) { r->type = first / 100; r->scen = first % 100; }
		if (r->scen == S_HANGUP && !(r->type == T_READ || r->type == T_WRITE)) r->scen = S_THREAD;
		r->has_ch = !(r->scen == S_CAW || r->scen == S_CAW_PRE || r->scen == S_CAW2);
		r->cancel_at = 1 + (int)(rr(r) % 3);
		run_round(r);
	}
	dv_untrack_all();
	printf("MGR %llu\n", (unsigned long long)(os_atomic_load2o(&_dispatch_mgr_q, dq_state, relaxed) & DLOCK_OWNER_MASK));
	dv_dump(stdout);
	printf("DONE %d\n", nrounds); fflush(stdout);
	return 0;
}
