// C02 (main queue) stress client + recorder + API-level oracle.  One scenario per process (the main queue is
// process-global).  The MAIN THREAD plays the run loop: it polls the eventfd handle of the main queue
// (_dispatch_get_main_queue_handle_4CF), reads it, and calls _dispatch_main_queue_callback_4CF; the other threads flood
// dispatch_async_f / dispatch_barrier_async_f / dispatch_sync_f / dispatch_barrier_sync_f / dispatch_async_and_wait_f /
// dispatch_barrier_async_and_wait_f onto dispatch_get_main_queue() (scenario `direct`), or onto serial queues TARGETING the
// main queue (`targeting`); `nested`: work items service the handle themselves (a nested run loop: the re-entrancy guard
// of the callback returns at once, the poke they consumed must be re-issued by the drain's exit wakeup); `spurious`: the
// main thread also calls the callback without a read; `phase2`: after some thread-bound traffic the main thread calls
// dispatch_main() while asynchronous pushers keep going, the queue is drained by workers, the process exits from a
// final item; `phase2_sync`: the same with synchronous callers in flight across dispatch_main() (oracle only);
// `resubmit`: work items dispatch_async_f more items onto the main queue from inside their callout on the bound thread
// (chains: also the LAST item of a drain pass does so, onto the then empty list), per-producer order with the bound
// thread as one more producer; in scenario `phase2` items resubmit as well, before and after dispatch_main() (then from
// the worker that runs them).
// Recorded (DISPATCH_VERIF hook, harness/dv_record.h): every atomic operation on &_dispatch_main_q (obj 1) and on the
// client threads' stacks (obj = gettid: thread event and do_next of the dispatch_sync_context_s living there), marks
// CALL / RET / CALLOUT_BEGIN / CALLOUT_END, MARK 1 = eventfd read (a = counter), 2 = callback returned, 3 = about to call
// dispatch_main, 4 = nested read, 5 = eventfd_write by the library (interposed), 6 = callback without a read.
// usage: c02_mainq <seed> <scenario> <perturb_permille> <scale>
// output: "Q ..." layout, "M <gettid>" main thread, "T <idx> <gettid> <role>", "FAIL <what>", "S <stats>", then the dump.
#include "internal.h"
#include <poll.h>
#include <sys/eventfd.h>
#include <signal.h>
#include "dv_record.h"

enum { K_SYNC = 1, K_BSYNC = 2, K_AAW = 3, K_ASYNC = 4, K_BASYNC = 5, K_BAAW = 6 };
#define MAXT 16
#define MAXQ 4

typedef struct item {
	int kind, serial, prod, pseq, viaq;     // viaq: 0 = directly on the main queue, k = through target queue k
	long owner;                              // gettid of the submitter
	_Atomic int runs; _Atomic uint64_t t_begin, t_end; uint64_t t_submit, t_ret; long ran_on;
	uint64_t pay, paysum; int nest, resub;
} item_t;

static struct dispatch_queue_static_s *mq;
static dispatch_queue_t tq[MAXQ]; static int ntq;
static long main_tid; static int evfd_handle = -1;
static _Atomic uint64_t stamp; static uint64_t now(void) { return atomic_fetch_add(&stamp, 1) + 1; }
static _Atomic int inside; static _Atomic int nfail; static _Atomic long n_items, n_done, n_sub_async, n_done_async;
static _Atomic long st_overlap, st_wrongthread, st_order, st_early, st_nested_reads, st_reads, st_pokes, st_spurious, st_phase2_runs;
static _Atomic int phase2_started; static volatile int stop_all;
static _Atomic int next_expected[MAXT][MAXQ + 1];
static int scale = 1; static const char *scn = "direct";

#define FAIL(...) do { printf("FAIL "); printf(__VA_ARGS__); printf("\n"); fflush(stdout); atomic_fetch_add(&nfail, 1); } while (0)
static inline uint64_t mixh(uint64_t x) { x ^= x >> 33; x *= 0xff51afd7ed558ccdull; x ^= x >> 33; x *= 0xc4ceb9fe1a85ec53ull; x ^= x >> 33; return x; }
static inline uint64_t xs(uint64_t *s) { uint64_t x = *s; x ^= x << 13; x ^= x >> 7; x ^= x << 17; return *s = x; }

// the library's poke, interposed (static link): recorded, then performed
int eventfd_write(int fd, eventfd_t value) {
	dv_user(DVU_MARK, 5, (unsigned long long)value, (unsigned long long)fd);
	atomic_fetch_add(&st_pokes, 1);
	return write(fd, &value, sizeof value) == (ssize_t)sizeof value ? 0 : -1;
}

static _Atomic int nest_go, nest_pushed;
static _Atomic long st_resub, st_resub_last;
static void resubmit_from(struct item *it, long me);
static void item_fn(void *ctx) {
	item_t *it = (item_t *)ctx; long me = (long)syscall(SYS_gettid);
	dv_user(DVU_CALLOUT_BEGIN, it->kind, (unsigned long long)it->serial, (unsigned long long)((it->kind == K_ASYNC || it->kind == K_BASYNC) ? 0 : it->owner));
	atomic_store(&it->t_begin, now());
	int in = atomic_fetch_add(&inside, 1);
	if (in != 0) { atomic_fetch_add(&st_overlap, 1); FAIL("overlap: item %d (kind %d) started while %d other item(s) of the main queue were running", it->serial, it->kind, in); }
	if (atomic_fetch_add(&it->runs, 1) != 0) FAIL("item %d (kind %d) ran more than once", it->serial, it->kind);
	it->ran_on = me;
	if (!atomic_load(&phase2_started)) {
		if (me != main_tid) { atomic_fetch_add(&st_wrongthread, 1); FAIL("item %d (kind %d, submitted by %ld) of the thread-bound main queue ran on thread %ld, not on the main thread %ld", it->serial, it->kind, it->owner, me, main_tid); }
	} else if (me != main_tid) atomic_fetch_add(&st_phase2_runs, 1);
	if (mixh(it->pay) != it->paysum) FAIL("item %d saw a stale submission payload", it->serial);
	// per producer (and per queue it went through): submission order
	int exp = atomic_fetch_add(&next_expected[it->prod][it->viaq], 1);
	if (exp != it->pseq) { atomic_fetch_add(&st_order, 1); FAIL("order: item %d of producer %d (via %d) is its submission #%d but ran as #%d", it->serial, it->prod, it->viaq, it->pseq, exp); }
	if (it->nest && me == main_tid && !atomic_load(&phase2_started)) {
		// a nested run loop inside a work item: let a pusher submit, consume the poke, call the callback (returns at once)
		atomic_store(&nest_pushed, 0); atomic_store(&nest_go, 1);
		for (int i = 0; i < 20000 && !atomic_load(&nest_pushed); i++) usleep(50);
		struct pollfd p = { .fd = evfd_handle, .events = POLLIN };
		if (poll(&p, 1, 0) > 0) { eventfd_t v = 0; if (eventfd_read(evfd_handle, &v) == 0) { dv_user(DVU_MARK, 4, v, 0); atomic_fetch_add(&st_nested_reads, 1); } }
		_dispatch_main_queue_callback_4CF(NULL);
	}
	if (it->resub > 0 && (atomic_load(&phase2_started) || me == main_tid)) resubmit_from(it, me);
	if ((it->serial & 15) == 0) { struct timespec ts = {0, 10000 + (long)(mixh((uint64_t)it->serial) % 40000)}; nanosleep(&ts, NULL); }
	else if ((it->serial & 7) == 1) sched_yield();
	atomic_fetch_sub(&inside, 1);
	atomic_store(&it->t_end, now());
	atomic_fetch_add(&n_done, 1);
	if (it->kind == K_ASYNC || it->kind == K_BASYNC) atomic_fetch_add(&n_done_async, 1);
	dv_user(DVU_CALLOUT_END, it->kind, (unsigned long long)it->serial, (unsigned long long)((it->kind == K_ASYNC || it->kind == K_BASYNC) ? 0 : it->owner));
}

typedef struct { int idx, role; uint64_t rng; int ncalls; int pseq[MAXQ + 1]; } targ_t;   // role 0 = synchronous client, 1 = asynchronous feeder, 2 = nest helper
static pthread_barrier_t bar;
static void track_my_stack(long me) {
	pthread_attr_t a; void *lo; size_t sz;
	pthread_getattr_np(pthread_self(), &a); pthread_attr_getstack(&a, &lo, &sz); pthread_attr_destroy(&a);
	dv_track(lo, sz, (int)me);
}
static item_t *mk_item(int kind, targ_t *t, long me, int viaq) {
	item_t *it = (item_t *)calloc(1, sizeof *it);
	it->kind = kind; it->serial = (int)atomic_fetch_add(&n_items, 1); it->owner = me; it->prod = t->idx; it->viaq = viaq;
	it->pseq = t->pseq[viaq]++; it->pay = xs(&t->rng); it->paysum = mixh(it->pay);
	return it;
}
static void submit(item_t *it, dispatch_queue_t q) {
	int kind = it->kind;
	dv_user(DVU_CALL, kind, (unsigned long long)it->serial, (unsigned long long)it->viaq);
	it->t_submit = now();
	switch (kind) {
	case K_SYNC: dispatch_sync_f(q, it, item_fn); break;
	case K_BSYNC: dispatch_barrier_sync_f(q, it, item_fn); break;
	case K_AAW: dispatch_async_and_wait_f(q, it, item_fn); break;
	case K_BAAW: dispatch_barrier_async_and_wait_f(q, it, item_fn); break;
	case K_ASYNC: dispatch_async_f(q, it, item_fn); break;
	case K_BASYNC: dispatch_barrier_async_f(q, it, item_fn); break;
	}
	it->t_ret = now();
	dv_user(DVU_RET, kind, (unsigned long long)it->serial, (unsigned long long)it->viaq);
	if (kind != K_ASYNC && kind != K_BASYNC) {
		uint64_t te = atomic_load(&it->t_end);
		if (atomic_load(&it->runs) != 1) FAIL("synchronous call (kind %d) of item %d returned with run count %d", kind, it->serial, atomic_load(&it->runs));
		else if (te == 0 || te > it->t_ret) { atomic_fetch_add(&st_early, 1); FAIL("synchronous call (kind %d) of item %d returned (stamp %llu) before its item finished (end stamp %llu)", kind, it->serial, (unsigned long long)it->t_ret, (unsigned long long)te); }
	} else atomic_fetch_add(&n_sub_async, 1);
}
// a work item of the thread-bound main queue submits more work to the main queue from inside its callout
static targ_t main_prod = { .idx = MAXT - 1, .role = 3 };
static void resubmit_from(struct item *it, long me) {
	int n = 1 + (int)(mixh(it->pay) % 2);
	for (int j = 0; j < n; j++) {
		item_t *c = mk_item((mixh(it->pay + (uint64_t)j) % 5 == 0) ? K_BASYNC : K_ASYNC, &main_prod, me, 0);
		c->resub = j == 0 ? it->resub - 1 : 0;
		if (mq->dq_items_tail == NULL) atomic_fetch_add(&st_resub_last, 1);   // the drain pass has nothing after this item
		atomic_fetch_add(&st_resub, 1);
		submit(c, (dispatch_queue_t)mq);
	}
}
static void *client(void *arg) {
	targ_t *t = (targ_t *)arg; long me = (long)syscall(SYS_gettid);
	static pthread_mutex_t mu = PTHREAD_MUTEX_INITIALIZER;
	pthread_mutex_lock(&mu); track_my_stack(me); printf("T %d %ld %s\n", t->idx, me, t->role == 0 ? "client" : t->role == 1 ? "feeder" : "nesthelper"); pthread_mutex_unlock(&mu);
	pthread_barrier_wait(&bar);
	if (t->role == 2) {   // pushes one item whenever a nesting work item asks for it
		while (!stop_all) {
			if (atomic_load(&nest_go)) { atomic_store(&nest_go, 0); item_t *it = mk_item(K_ASYNC, t, me, 0); submit(it, (dispatch_queue_t)mq); atomic_store(&nest_pushed, 1); }
			else usleep(100);
		}
		return NULL;
	}
	for (int c = 0; c < t->ncalls && !stop_all; c++) {
		uint64_t r = xs(&t->rng);
		int viaq = ntq ? 1 + (int)((r >> 4) % (unsigned)ntq) : 0;
		if (ntq && ((r >> 12) & 3) == 0) viaq = 0;
		dispatch_queue_t q = viaq ? tq[viaq - 1] : (dispatch_queue_t)mq;
		int kind;
		if (t->role == 1) kind = ((r >> 20) % 5 == 0) ? K_BASYNC : K_ASYNC;
		else { static const int ks[] = { K_SYNC, K_BSYNC, K_AAW, K_BAAW, K_SYNC, K_AAW }; kind = ks[(r >> 20) % 6]; }
		item_t *it = mk_item(kind, t, me, viaq);
		if (!strcmp(scn, "nested") && t->role == 1 && (r >> 28) % 6 == 0 && viaq == 0) it->nest = 1;
		if ((!strcmp(scn, "resubmit") || !strcmp(scn, "phase2")) && t->role == 1 && (r >> 28) % 3 == 0 && viaq == 0) it->resub = 1 + (int)((r >> 32) % 4);
		if ((r >> 8) % 5 == 0) usleep((useconds_t)((r >> 16) % 120));
		submit(it, q);
		if (t->role == 1) { while (atomic_load(&n_sub_async) - atomic_load(&n_done_async) > 48 && !stop_all) usleep(50); }
	}
	return NULL;
}

static void *watchdog(void *a) {
	(void)a; uint64_t last = 0; int idle = 0;
	for (;;) { usleep(250000); uint64_t p = atomic_load(&stamp);
		if (p == last) { if (++idle >= 40) { printf("FAIL STUCK: no progress for 10s: submitted work never ran or a synchronous call never returned (items %ld done %ld, eventfd reads %ld pokes %ld)\n",
				atomic_load(&n_items), atomic_load(&n_done), atomic_load(&st_reads), atomic_load(&st_pokes)); fflush(stdout); atomic_store(&dv_enabled, 0); dv_dump(stdout); fflush(stdout); _exit(3); } }
		else { idle = 0; last = p; } }
	return NULL;
}

static void finish(int rc) {
	atomic_store(&dv_enabled, 0);
	printf("S items=%ld done=%ld async=%ld overlap=%ld wrongthread=%ld order=%ld early=%ld reads=%ld nested_reads=%ld pokes=%ld spurious=%ld phase2_runs=%ld resub=%ld resub_last=%ld final_state=%llu final_flags=%u fails=%d\n",
		atomic_load(&n_items), atomic_load(&n_done), atomic_load(&n_sub_async), atomic_load(&st_overlap), atomic_load(&st_wrongthread),
		atomic_load(&st_order), atomic_load(&st_early), atomic_load(&st_reads), atomic_load(&st_nested_reads), atomic_load(&st_pokes),
		atomic_load(&st_spurious), atomic_load(&st_phase2_runs), atomic_load(&st_resub), atomic_load(&st_resub_last), (unsigned long long)mq->dq_state, (unsigned)mq->dq_atomic_flags, atomic_load(&nfail));
	dv_dump(stdout); fflush(stdout);
	_exit(rc ? rc : (atomic_load(&nfail) ? 1 : 0));
}

static pthread_t th[MAXT]; static targ_t ta[MAXT]; static int nthreads, nclients;
static void *phase2_coordinator(void *a) {
	(void)a;
	for (int k = 0; k < nthreads; k++) pthread_join(th[k], NULL);
	// everything submitted must run, now on worker threads; then the queue must come to rest
	// (no wall-clock limit here: the progress-based watchdog reports work that never runs)
	while (atomic_load(&n_done) < atomic_load(&n_items)) usleep(100);
	for (int i = 0; i < 20000; i++) { uint64_t v = *(volatile uint64_t *)&mq->dq_state; if ((v & 0x3fffffffull) == 0 && !(v & 0x80000000ull)) break; usleep(100); }
	usleep(20000);
	finish(0);
	return NULL;
}

int main(int argc, char **argv) {
	uint64_t seed = argc > 1 ? strtoull(argv[1], 0, 10) : 1; scn = argc > 2 ? argv[2] : "direct";
	int permille = argc > 3 ? atoi(argv[3]) : 150; scale = argc > 4 ? atoi(argv[4]) : 1;
	int phase2 = !strncmp(scn, "phase2", 6), p2sync = !strcmp(scn, "phase2_sync"), spurious = !strcmp(scn, "spurious");
	mq = &_dispatch_main_q; main_tid = (long)syscall(SYS_gettid);
	printf("Q state=%llu flags=%u off_state=%zu off_tail=%zu off_head=%zu off_flags=%zu off_next=%zu size=%zu\n",
		(unsigned long long)mq->dq_state, (unsigned)mq->dq_atomic_flags, offsetof(struct dispatch_queue_static_s, dq_state),
		offsetof(struct dispatch_queue_static_s, dq_items_tail), offsetof(struct dispatch_queue_static_s, dq_items_head),
		offsetof(struct dispatch_queue_static_s, dq_atomic_flags), offsetof(struct dispatch_queue_static_s, do_next), sizeof *mq);
	printf("M %ld\n", main_tid);
	if (!strcmp(scn, "targeting")) { ntq = 2 + (int)(seed % 2);
		for (int i = 0; i < ntq; i++) tq[i] = dispatch_queue_create_with_target("c02.to.main", NULL, (dispatch_queue_t)mq); }
	dv_track(mq, sizeof *mq, 1);
	dv_install(seed, permille);
	evfd_handle = _dispatch_get_main_queue_handle_4CF();
	pthread_t wd; pthread_create(&wd, NULL, watchdog, NULL);
	int nfeed = 2 + (int)(seed % 2); nclients = (p2sync || !phase2) ? 2 + (int)((seed >> 1) % 2) : 0;
	int nest = !strcmp(scn, "nested");
	nthreads = nclients + nfeed + nest; if (nthreads > MAXT) return 2;
	pthread_barrier_init(&bar, NULL, (unsigned)nthreads + 1);
	for (int k = 0; k < nthreads; k++) {
		ta[k].idx = k; ta[k].role = k < nclients ? 0 : (k < nclients + nfeed ? 1 : 2);
		ta[k].rng = mixh(seed * 1315423911ull + (uint64_t)k * 0x9E3779B97F4A7C15ull) | 1;
		ta[k].ncalls = (ta[k].role == 0 ? 40 : 120) * scale;
		pthread_create(&th[k], NULL, client, &ta[k]);
	}
	pthread_barrier_wait(&bar);
	main_prod.rng = mixh(seed ^ 0x77aa55) | 1;
	uint64_t mrng = mixh(seed ^ 0x5bd1e995) | 1; long target_before_main = 0;
	if (phase2) target_before_main = 60 * scale;
	for (;;) {
		if (spurious && (xs(&mrng) & 3) == 0) {   // the callback may be called at any time by the bound thread, also without a read
			atomic_fetch_add(&st_spurious, 1); dv_user(DVU_MARK, 6, 0, 0); _dispatch_main_queue_callback_4CF(NULL); dv_user(DVU_MARK, 2, 0, 0);
		}
		struct pollfd p = { .fd = evfd_handle, .events = POLLIN };
		int r = poll(&p, 1, 20);
		if (r > 0 && (p.revents & POLLIN)) {
			eventfd_t v = 0;
			if (eventfd_read(evfd_handle, &v) == 0) { atomic_fetch_add(&st_reads, 1); dv_user(DVU_MARK, 1, v, 0); _dispatch_main_queue_callback_4CF(NULL); dv_user(DVU_MARK, 2, 0, 0); }
		}
		if (phase2 && atomic_load(&n_done) >= target_before_main) {
			pthread_t co; pthread_create(&co, NULL, phase2_coordinator, NULL);
			atomic_store(&phase2_started, 1);
			dv_user(DVU_MARK, 3, 0, 0);
			dispatch_main();
		}
		if (!phase2) {
			static int joined[MAXT];
			int alive = 0; for (int k = 0; k < nclients + nfeed; k++) { if (!joined[k]) { if (pthread_tryjoin_np(th[k], NULL) == 0) joined[k] = 1; else alive = 1; } }
			if (!alive && atomic_load(&n_done) >= atomic_load(&n_items)) break;
		}
	}
	stop_all = 1;
	if (nest) pthread_join(th[nthreads - 1], NULL);
	// at rest: everything ran; the handle must not be needed any more (a last service pass finds the list empty)
	for (int i = 0; i < 3; i++) { struct pollfd p = { .fd = evfd_handle, .events = POLLIN }; if (poll(&p, 1, 5) > 0) { eventfd_t v; if (eventfd_read(evfd_handle, &v) == 0) { atomic_fetch_add(&st_reads, 1); dv_user(DVU_MARK, 1, v, 0); _dispatch_main_queue_callback_4CF(NULL); dv_user(DVU_MARK, 2, 0, 0); } } }
	if (atomic_load(&n_done) != atomic_load(&n_items)) FAIL("%ld of %ld items never ran", atomic_load(&n_items) - atomic_load(&n_done), atomic_load(&n_items));
	if (mq->dq_items_tail) FAIL("the main queue's list is not empty at rest");
	finish(0);
	return 0;
}
