// C01/C02 serial-lane conformance recorder (white-box: includes the library's internal header for the layout of
// struct dispatch_lane_s / continuations and for the root-queue array; the scenario itself uses the public API only).
//
// Each round creates ONE serial queue (default target, or an explicit global queue at some QoS, or a QoS attribute),
// tracks the queue object with dv_track, floods it with dispatch_async_f from 1..8 threads with schedule perturbation
// inside the library's atomic operations, waits until the lane is idle again, and goes on to the next round.
// Everything the DISPATCH_VERIF hook reports on the lane object and on the root-queue array is recorded; so is every
// pointer-sized load/store at an address that is not tracked (obj = -1, off = absolute address): the continuations
// come from the library's cache, their addresses are not known in advance, so the checker recognises the do_next
// accesses of items BY VALUE (the pointer exchanged into dq_items_tail names the item).
//
// usage: c02_slane <seed> <rounds> <perturb_permille> [scale]
// output:
//   O <sizeof lane> <off dq_state> <off dq_items_tail> <off dq_items_head> <off do_next> <off do_ref_cnt> <off dq_atomic_flags>
//     <sizeof root queue> <nroots> <root array address> <ENQUEUED> <DIRTY> <ROLE_BASE_ANON> <off do_targetq>
//   R <round> <lane address> <kind> <nthreads> <nitems> <wakeup qos> <dq_priority> <initial dq_state> <final dq_state>
//     <seq at begin> <seq at end> <ran> <max concurrently running> <order errors> <idle ok> <target root index> <nested>
//   X <rounds printed> <events dumped>     last line: the dump is complete
//   E ... (dv_record.h format; obj = round for the lane, 900 for the root-queue array, -1 untracked)
// harness-level events (dv_user): DVU_CALL a=wakeup qos + 256 * push qos, b=ticket / DVU_RET b=ticket around each dispatch_async_f,
//   DVU_CALLOUT_BEGIN / DVU_CALLOUT_END a=ticket inside each work item.
#include "internal.h"
#include <inttypes.h>
#include "dv_record.h"

#define MAXT 8
#define MAXITEMS 4096

typedef struct { int round; int ticket; int thr; int idx; int depth; } item_t;
static item_t items[MAXITEMS];
static _Atomic int next_ticket, ran, inflight, maxinflight, order_err;
static _Atomic int last_idx[MAXT + 1];
static _Atomic int nested_idx; static int cur_nested;   // nested round: some items submit to their own queue from the callout
static int cur_round;
static uint64_t round_rng;
static dispatch_queue_t cur_q;
static int cur_wq, cur_pq;
static pthread_barrier_t bar;
static __thread int in_call;
static const uintptr_t off_tail = offsetof(struct dispatch_lane_s, dq_items_tail), off_head = offsetof(struct dispatch_lane_s, dq_items_head);

static void sl_cb(const volatile void *addr, unsigned size, int kind, int order, unsigned long long a, unsigned long long b,
		int ok, const char *file, int line) {
	(void)file;
	if (!atomic_load_explicit(&dv_enabled, memory_order_relaxed)) return;
	int saved_errno = errno;
	dv_thr_t *t = dv_me();
	uintptr_t p = (uintptr_t)addr; int n = atomic_load_explicit(&dv_nranges, memory_order_acquire), hit = 0;
	for (int i = n - 1; i >= 0; i--) if (p >= dv_ranges[i].lo && p < dv_ranges[i].hi) {
		dv_push(t, kind, order, dv_ranges[i].obj, (long)(p - dv_ranges[i].lo), (int)size, a, b, ok, line); hit = 1;
		break;
	}
	if (!hit && size == 8 && (kind == 1 || kind == 2)) dv_push(t, kind, order, -1, (long)p, (int)size, a, b, ok, line);
	if (dv_permille) {
		uint64_t r = dv_rand(t);
		if ((int)(r % 1000) < dv_permille) { if ((r >> 20) & 3) sched_yield(); else usleep((useconds_t)((r >> 24) % 60)); }
		// aimed delays (delays only): widen the two windows of the MPSC push on the tracked lane
		//   after the tail exchange, before the link store: the drainer meets a lagging enqueuer
		//   after the head store of a push that found the list empty, before the probe / wakeup: a drainer that is still
		//   active may take the item and empty the list first
		if (hit && in_call && p - (uintptr_t)cur_q == off_tail && kind == 3 && (r >> 40) % 8 == 0)
			usleep((useconds_t)(20 + (r >> 44) % 100));
		if (hit && in_call && p - (uintptr_t)cur_q == off_head && kind == 2 && (r >> 40) % 4 == 0)
			usleep((useconds_t)(40 + (r >> 44) % 200));
	}
	errno = saved_errno;
}

static void work(void *ctx) {
	item_t *it = (item_t *)ctx;
	dv_user(DVU_CALLOUT_BEGIN, it->round, (unsigned long long)it->ticket, 0);
	int c = atomic_fetch_add(&inflight, 1) + 1, m = atomic_load(&maxinflight);
	while (c > m && !atomic_compare_exchange_weak(&maxinflight, &m, c)) { }
	int prev = atomic_exchange(&last_idx[it->thr], it->idx);
	if (prev >= it->idx) atomic_fetch_add(&order_err, 1);
	uint64_t x = ((uint64_t)it->ticket + 1) * 0x9E3779B97F4A7C15ull ^ round_rng;
	x ^= x >> 29;
	if (x % 11 == 0) usleep((useconds_t)(x % 90)); else if (x % 5 == 0) sched_yield();
	if (cur_nested && it->depth < 2 && (x >> 7) % 3 == 0) {
		// the work item submits to its own serial queue (drainer = pusher): one pseudo-submitter MAXT, whose submissions are
		// totally ordered because callouts of a serial queue are; outside the flat client of Model/SLane.v
		int k = atomic_fetch_add(&next_ticket, 1);
		if (k < MAXITEMS) {
			item_t *ch = &items[k]; ch->round = cur_round; ch->ticket = k; ch->thr = MAXT; ch->idx = atomic_fetch_add(&nested_idx, 1);
			ch->depth = it->depth + 1;
			dv_user(DVU_CALL, cur_round, (unsigned long long)cur_wq | ((unsigned long long)cur_pq << 8), (unsigned long long)k);
			in_call = 1;
			dispatch_async_f(cur_q, ch, work);
			in_call = 0;
			dv_user(DVU_RET, cur_round, 0, (unsigned long long)k);
		} else atomic_fetch_sub(&next_ticket, 1);
	}
	atomic_fetch_sub(&inflight, 1);
	atomic_fetch_add(&ran, 1);
	dv_user(DVU_CALLOUT_END, it->round, (unsigned long long)it->ticket, 0);
}

typedef struct { int thr, n; uint64_t rng; } targ_t;
static void *submitter(void *a) {
	targ_t *t = (targ_t *)a; uint64_t r = t->rng;
	pthread_barrier_wait(&bar);
	for (int i = 0; i < t->n; i++) {
		r = r * 6364136223846793005ull + 1442695040888963407ull;
		unsigned mode = (unsigned)(r >> 33) % 16;
		if (mode < 3) {            // let the lane drain: the next push finds the list empty, possibly while the drainer unlocks
			int spins = 0; while (atomic_load(&ran) < atomic_load(&next_ticket) && spins++ < 2000) sched_yield();
			if (mode == 0) usleep((useconds_t)((r >> 40) % 40));
		} else if (mode < 5) usleep((useconds_t)((r >> 40) % 30));
		int k = atomic_fetch_add(&next_ticket, 1);
		item_t *it = &items[k]; it->round = cur_round; it->ticket = k; it->thr = t->thr; it->idx = i; it->depth = 0;
		dv_user(DVU_CALL, cur_round, (unsigned long long)cur_wq | ((unsigned long long)cur_pq << 8), (unsigned long long)k);
		in_call = 1;
		dispatch_async_f(cur_q, it, work);
		in_call = 0;
		dv_user(DVU_RET, cur_round, 0, (unsigned long long)k);
	}
	return NULL;
}

static int root_index(dispatch_queue_t tq) {
	dispatch_queue_global_t g = upcast(tq)._dgq;
	if (g >= _dispatch_root_queues && g < _dispatch_root_queues + _DISPATCH_ROOT_QUEUE_IDX_COUNT) return (int)(g - _dispatch_root_queues);
	return -1;
}

static const intptr_t GQ[] = { DISPATCH_QUEUE_PRIORITY_DEFAULT, DISPATCH_QUEUE_PRIORITY_HIGH, DISPATCH_QUEUE_PRIORITY_LOW,
	DISPATCH_QUEUE_PRIORITY_BACKGROUND, QOS_CLASS_USER_INTERACTIVE, QOS_CLASS_UTILITY };
static const dispatch_qos_class_t AQ[] = { QOS_CLASS_USER_INITIATED, QOS_CLASS_DEFAULT, QOS_CLASS_UTILITY, QOS_CLASS_BACKGROUND };

int main(int argc, char **argv) {
	uint64_t seed = argc > 1 ? strtoull(argv[1], 0, 10) : 1; int rounds = argc > 2 ? atoi(argv[2]) : 20;
	int permille = argc > 3 ? atoi(argv[3]) : 200; int scale = argc > 4 ? atoi(argv[4]) : 1;
	if (scale < 1) scale = 1;
	printf("O %zu %zu %zu %zu %zu %zu %zu %zu %d %" PRIuPTR " %llu %llu %llu %zu\n", sizeof(struct dispatch_lane_s),
			offsetof(struct dispatch_lane_s, dq_state), offsetof(struct dispatch_lane_s, dq_items_tail),
			offsetof(struct dispatch_lane_s, dq_items_head), offsetof(struct dispatch_object_s, do_next),
			offsetof(struct dispatch_lane_s, do_ref_cnt), offsetof(struct dispatch_lane_s, dq_atomic_flags),
			sizeof(struct dispatch_queue_global_s), (int)_DISPATCH_ROOT_QUEUE_IDX_COUNT, (uintptr_t)&_dispatch_root_queues[0],
			(unsigned long long)DISPATCH_QUEUE_ENQUEUED, (unsigned long long)DISPATCH_QUEUE_DIRTY,
			(unsigned long long)DISPATCH_QUEUE_ROLE_BASE_ANON, offsetof(struct dispatch_lane_s, do_targetq));
	_Static_assert(offsetof(struct dispatch_continuation_s, do_next) == offsetof(struct dispatch_object_s, do_next), "do_next");
	dv_install(seed, permille);
	_dispatch_verif_cb = sl_cb;
	uint64_t r = seed * 6364136223846793005ull + 1442695040888963407ull;
	dispatch_queue_t keep[64]; int nkeep = 0, rounds_done = 0;
	dv_track(&_dispatch_root_queues[0], sizeof(struct dispatch_queue_global_s) * _DISPATCH_ROOT_QUEUE_IDX_COUNT, 900);
	for (int i = 0; i < rounds; i++) {
		r = r * 6364136223846793005ull + 1442695040888963407ull;
		int n = 1 + (int)((r >> 33) % MAXT); int kind = (int)((r >> 40) % 12);
		cur_nested = (int)((r >> 50) % 5 == 0);
		char lbl[32]; snprintf(lbl, sizeof lbl, "sl%d", i);
		dispatch_queue_t q;
		if (kind == 0) q = dispatch_queue_create(lbl, NULL);
		else if (kind == 1) q = dispatch_queue_create(lbl, DISPATCH_QUEUE_SERIAL);
		else if (kind < 8) q = dispatch_queue_create_with_target(lbl, DISPATCH_QUEUE_SERIAL, dispatch_get_global_queue(GQ[kind - 2], 0));
		else q = dispatch_queue_create(lbl, dispatch_queue_attr_make_with_qos_class(DISPATCH_QUEUE_SERIAL, AQ[kind - 8], kind == 9 ? -3 : 0));
		dispatch_lane_t dl = upcast(q)._dl;
		cur_q = q; cur_round = i; round_rng = r;
		// dispatch_async_f: the continuation carries no priority on this build (no HAVE_PTHREAD_WORKQUEUE_QOS), so the qos
		// _dispatch_lane_push receives is UNSPECIFIED; the two qos values it derives from dq_priority:
		cur_pq = (int)_dispatch_queue_push_qos(dl, DISPATCH_QOS_UNSPECIFIED);
		cur_wq = (int)_dispatch_queue_wakeup_qos(dl, (dispatch_qos_t)cur_pq);
		atomic_store(&next_ticket, 0); atomic_store(&ran, 0); atomic_store(&inflight, 0); atomic_store(&maxinflight, 0);
		atomic_store(&order_err, 0);
		for (int k = 0; k <= MAXT; k++) atomic_store(&last_idx[k], -1);
		atomic_store(&nested_idx, 0);
		uint64_t st0 = *(volatile uint64_t *)&dl->dq_state;
		dv_track(dl, sizeof(struct dispatch_lane_s), i);
		unsigned long long seq0 = atomic_load(&dv_seq);
		pthread_t th[MAXT]; targ_t ta[MAXT]; int total = 0;
		pthread_barrier_init(&bar, NULL, (unsigned)n);
		for (int k = 0; k < n; k++) {
			ta[k].thr = k; ta[k].n = (3 + (int)((r >> (k * 3 + 5)) % 14)) * scale; ta[k].rng = r ^ ((uint64_t)(k + 1) * 0x9E3779B97F4A7C15ull);
			if (total + ta[k].n > MAXITEMS) ta[k].n = MAXITEMS - total;
			total += ta[k].n;
			pthread_create(&th[k], NULL, submitter, &ta[k]);
		}
		for (int k = 0; k < n; k++) pthread_join(th[k], NULL);
		pthread_barrier_destroy(&bar);
		// wait until every item ran and the lane is idle: unlocked, not enqueued, empty (plain reads: not recorded)
		// progress-based watchdog: give up only when nothing has run for 10 s (never on elapsed time alone)
		int idle = 0, last_ran = -1, still = 0;
		for (;;) {
			uint64_t st = *(volatile uint64_t *)&dl->dq_state;
			if (atomic_load(&ran) == atomic_load(&next_ticket) && !(st & DISPATCH_QUEUE_DRAIN_OWNER_MASK) && !(st & DISPATCH_QUEUE_ENQUEUED) &&
					!_dq_state_is_in_barrier(st) && dl->dq_items_tail == NULL) { idle = 1; break; }
			if (atomic_load(&ran) != last_ran) { last_ran = atomic_load(&ran); still = 0; }
			else if (++still > 200000) break;   // nothing ran for >= 10 s: stranded; report and stop
			usleep(50);
		}
		total = atomic_load(&next_ticket);
		usleep(300);   // let the last drainer leave the object (reference counts, root-queue bookkeeping)
		uint64_t st1 = *(volatile uint64_t *)&dl->dq_state;
		unsigned long long seq1 = atomic_load(&dv_seq);
		printf("R %d %" PRIuPTR " %d %d %d %d %u %" PRIu64 " %" PRIu64 " %llu %llu %d %d %d %d %d %d\n", i, (uintptr_t)dl, kind, n, total,
				cur_wq, (unsigned)dl->dq_priority, st0, st1, seq0, seq1, atomic_load(&ran), atomic_load(&maxinflight),
				atomic_load(&order_err), idle, root_index(q->do_targetq), cur_nested);
		rounds_done++;
		if (!idle) break;    // the lane is stuck: later rounds would only wait; dump what was recorded
		keep[nkeep++] = q;
		if (nkeep == 48) {   // the recorder has 64 ranges: recycle them while nothing is in flight
			dv_untrack_all();
			dv_track(&_dispatch_root_queues[0], sizeof(struct dispatch_queue_global_s) * _DISPATCH_ROOT_QUEUE_IDX_COUNT, 900);
			for (int k = 0; k < nkeep; k++) dispatch_release(keep[k]);
			nkeep = 0;
		}
	}
	atomic_store(&dv_enabled, 0);
	dv_dump(stdout);
	{ size_t nev = 0; for (dv_thr_t *t = dv_threads; t; t = t->next) nev += t->n; printf("X %d %zu\n", rounds_done, nev); }
	return 0;
}
