// C06, public API only: dispatch_suspend called from an item that runs synchronously on a serial queue while 1..3
// dispatch_sync_f callers are already queued behind it. None of the queued callers' items may start before the
// matching dispatch_resume; after the resume all of them run.
//
//   c06_syncsusp <rounds> [first_round]
// round r: variant r % 3 (how the suspending item is submitted: 0 dispatch_sync_f, 1 dispatch_barrier_sync_f,
// 2 dispatch_async_and_wait_f), waiters 1 + (r / 3) % 3.
// prints one line per round: "R <round> <variant> <b_ran_before_resume 0/1> <waiters> <waiters run before resume>", exit 0.
// Every wait is covered by a no-progress watchdog: "HANG ..." and exit 3.
#include <dispatch/dispatch.h>
#include <pthread.h>
#include <stdatomic.h>
#include <stdio.h>
#include <stdlib.h>
#include <unistd.h>

// declared in private/workloop_private.h, exported by libdispatch.so
extern void dispatch_async_and_wait_f(dispatch_queue_t queue, void *context, dispatch_function_t work);

#define MAXW 3
#define PARK_US 30000      // let the waiters park in dispatch_sync's slow path before the suspend
#define OBSERVE_US 60000   // how long the queue stays suspended after the suspending item returned
#define WATCHDOG_S 20

static const char *const variant_name[3] = { "sync", "barrier_sync", "async_and_wait" };

static dispatch_queue_t q;
static atomic_int queued, done_cnt, progress, phase_round, phase_step;
static int nwaiters;
static pthread_t waiters[MAXW];

static void step(int s) { atomic_store(&phase_step, s); atomic_fetch_add(&progress, 1); }

static void *watchdog(void *arg)
{
	(void)arg;
	int last = atomic_load(&progress), idle = 0;
	for (;;) {
		sleep(1);
		int now = atomic_load(&progress);
		if (now != last) { last = now; idle = 0; continue; }
		if (++idle >= WATCHDOG_S) {
			printf("HANG round %d step %d: no progress for %d s\n", atomic_load(&phase_round),
					atomic_load(&phase_step), WATCHDOG_S);
			fflush(stdout);
			_exit(3);
		}
	}
	return NULL;
}

static void b_item(void *ctx)
{
	(void)ctx;
	atomic_fetch_add(&done_cnt, 1);
	atomic_fetch_add(&progress, 1);
}

static void *waiter_thread(void *arg)
{
	(void)arg;
	atomic_fetch_add(&queued, 1);
	dispatch_sync_f(q, NULL, b_item);
	return NULL;
}

static void a_item(void *ctx)
{
	(void)ctx;
	for (int i = 0; i < nwaiters; i++) {
		if (pthread_create(&waiters[i], NULL, waiter_thread, NULL)) { printf("HANG pthread_create failed\n"); _exit(3); }
	}
	step(2);
	while (atomic_load(&queued) < nwaiters) usleep(100);
	usleep(PARK_US);
	step(3);
	dispatch_suspend(q);
}

int main(int argc, char **argv)
{
	int rounds = argc > 1 ? atoi(argv[1]) : 9;
	int first = argc > 2 ? atoi(argv[2]) : 0;
	pthread_t wd;
	setvbuf(stdout, NULL, _IOLBF, 0);
	pthread_create(&wd, NULL, watchdog, NULL);
	for (int r = first; r < first + rounds; r++) {
		int variant = r % 3;
		nwaiters = 1 + (r / 3) % MAXW;
		atomic_store(&phase_round, r);
		atomic_store(&queued, 0);
		atomic_store(&done_cnt, 0);
		q = dispatch_queue_create("c06.syncsusp", DISPATCH_QUEUE_SERIAL);
		step(1);
		switch (variant) {   // returns with q suspended once
		case 0: dispatch_sync_f(q, NULL, a_item); break;
		case 1: dispatch_barrier_sync_f(q, NULL, a_item); break;
		default: dispatch_async_and_wait_f(q, NULL, a_item); break;
		}
		step(4);
		usleep(OBSERVE_US);
		int early = atomic_load(&done_cnt);
		step(5);
		dispatch_resume(q);
		for (int i = 0; i < nwaiters; i++) pthread_join(waiters[i], NULL);
		step(6);
		if (atomic_load(&done_cnt) != nwaiters) {
			printf("HANG round %d: %d of %d queued dispatch_sync items ran\n", r, atomic_load(&done_cnt), nwaiters);
			return 3;
		}
		printf("R %d %s %d %d %d\n", r, variant_name[variant], early ? 1 : 0, nwaiters, early);
		dispatch_release(q);
	}
	return 0;
}
