#!/bin/bash
# MANIFEST.setup_cmd: build everything the checks share, offline, from files on disk only.
set -e
cd "$(dirname "$0")"
python3 - <<'PY'
import sys
sys.path.insert(0, "lib")
import common
ok, msg = common.ensure_build()
print("hooked build of /repo:", ok, msg[-2000:])
if not ok:
    sys.exit(1)
errs = common.run_src2v()
print("src2v:", errs or "ok")
import glob, os
d = common.coq_dir()
targets = sorted(os.path.relpath(p, d)[:-2] + ".vo" for p in glob.glob(os.path.join(d, "P*/*.v")) + glob.glob(os.path.join(d, "Model/*.v")))
ok, out = common.coq_make(targets, timeout=3000)
print("coq build:", ok)
if not ok:
    print(out[-4000:])
    sys.exit(1)
PY
