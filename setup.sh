#!/bin/bash
# MANIFEST.setup_cmd: warm the caches the checks share (hooked build of /repo, regenerated coq/Gen, the .vo files of the
# claimed properties), offline, from files on disk only.  Every check redoes these steps itself (incrementally) and is the
# one that reports a build / translation / proof failure as a VIOLATION, so this script only warns about them.
cd "$(dirname "$0")"
python3 - <<'PY'
import sys, json, importlib
sys.path.insert(0, "lib")
import common
ok, msg = common.ensure_build()
print("hooked build of /repo:", ok, msg[-2000:])
if ok:
    errs = common.run_src2v()
    print("src2v:", errs or "ok")
    man = json.load(open("MANIFEST.json"))
    targets = []
    for c in man["checks"]:
        try:
            mod = importlib.import_module("props." + c["property_id"].lower())
        except Exception as e:
            print("warning: no props module for", c["property_id"], e)
            continue
        for t in list(getattr(mod, "COQ_DEPS", [])) + [f[:-2] + ".vo" for f in [mod.PROPERTIES_FILE] + list(getattr(mod, "EXTRA_PROPERTIES_FILES", []))]:
            if t not in targets:
                targets.append(t)
    ok, out = common.coq_make(targets, timeout=3000)
    print("coq build of %d targets: %s" % (len(targets), ok))
    if not ok:
        print("warning: coq build incomplete (the checks will report it):\n" + out[-3000:])
PY
exit 0
